/-
  Helper lemmas for properties C12 / C02 about the retry stack model (`Model/Retry.lean`):
    * the global packet order `allPkts`, the per-message projection `msgPkts`
    * effect specifications of the leaf functions (`send`, `relAttempt`, `pubAttempt`, …)
    * the per-message phase invariant `PInv` and its preservation by every function up to `step`
-/
import MqttVerif.Model.Retry

namespace Mqtt.Retry

/-- global order of all attempted packets of a run -/
def allPkts (w : World) : List (Pkt × Wire) := w.conns.flatMap (·.pkts)

/-- the application submits each message index at most once -/
def Script.DistinctMsgs (s : Script) : Prop :=
  (s.evs.filterMap (fun e => match e with | .app (.pub m _) => some m | _ => none)).Nodup

/-- (qos, id, dup, wire) of the PUBLISH attempts for `m`, in order -/
def pubsOf (w : World) (m : Nat) : List (Nat × Nat × Bool × Wire) :=
  (allPkts w).filterMap (fun pw => match pw.1 with
    | .publish m' q i d => if m' = m then some (q, i, d, pw.2) else none
    | _ => none)

/-! ### "modifies only" relation of the request attempts -/

/-- `w'` differs from `w` at most in `conns` (same number of them), `faults`, `broker`, `stuck`,
    `pid` -/
structure Mod (w w' : World) : Prop where
  eq : w' = { w with conns := w'.conns, faults := w'.faults, broker := w'.broker,
                     stuck := w'.stuck, pid := w'.pid }
  len : w'.conns.length = w.conns.length

theorem Mod.refl (w : World) : Mod w w := ⟨by cases w; rfl, rfl⟩

theorem Mod.trans {a b c : World} (h1 : Mod a b) (h2 : Mod b c) : Mod a c := by
  refine ⟨?_, h2.len.trans h1.len⟩
  have e1 := h1.eq
  have e2 := h2.eq
  cases a; cases b; cases c
  simp only [World.mk.injEq] at *
  simp_all

section
variable {w w' : World} (h : Mod w w')
include h
theorem Mod.cfg : w'.cfg = w.cfg := by have := congrArg World.cfg h.eq; exact this
theorem Mod.taskQ : w'.taskQ = w.taskQ := by have := congrArg World.taskQ h.eq; exact this
theorem Mod.retryQ : w'.retryQ = w.retryQ := by have := congrArg World.retryQ h.eq; exact this
theorem Mod.subEst : w'.subEst = w.subEst := by have := congrArg World.subEst h.eq; exact this
theorem Mod.closeAfterTask : w'.closeAfterTask = w.closeAfterTask := by
  have := congrArg World.closeAfterTask h.eq; exact this
theorem Mod.cli : w'.cli = w.cli := by have := congrArg World.cli h.eq; exact this
theorem Mod.accepted : w'.accepted = w.accepted := by
  have := congrArg World.accepted h.eq; exact this
theorem Mod.initialized : w'.initialized = w.initialized := by
  have := congrArg World.initialized h.eq; exact this
theorem Mod.connReady : w'.connReady = w.connReady := by
  have := congrArg World.connReady h.eq; exact this
theorem Mod.goroutine : w'.goroutine = w.goroutine := by
  have := congrArg World.goroutine h.eq; exact this
theorem Mod.gConnected : w'.gConnected = w.gConnected := by
  have := congrArg World.gConnected h.eq; exact this
theorem Mod.stopped : w'.stopped = w.stopped := by have := congrArg World.stopped h.eq; exact this
theorem Mod.phase : w'.phase = w.phase := by have := congrArg World.phase h.eq; exact this
end

/-! ### list lemmas about `conns` -/

theorem flatMap_set_same (l : List Conn) (k : Nat) (c : Conn)
    (h : c.pkts = (l.getD k {}).pkts) :
    (l.set k c).flatMap (·.pkts) = l.flatMap (·.pkts) := by
  induction l generalizing k with
  | nil => simp
  | cons a t ih =>
    cases k with
    | zero => simp at h; simp [h]
    | succ k => simp at h; simp [ih k h]

theorem flatMap_set_last (l : List Conn) (k : Nat) (c : Conn) (e : Pkt × Wire)
    (hk : k + 1 = l.length) (h : c.pkts = (l.getD k {}).pkts ++ [e]) :
    (l.set k c).flatMap (·.pkts) = l.flatMap (·.pkts) ++ [e] := by
  induction l generalizing k with
  | nil => simp at hk
  | cons a t ih =>
    cases k with
    | zero =>
      have : t = [] := by
        cases t with
        | nil => rfl
        | cons _ _ => simp at hk
      subst this
      simp at h; simp [h]
    | succ k =>
      simp at h hk
      simp [ih k (by omega) h]

theorem filter_flatMap_set_other (P : Pkt × Wire → Bool) (l : List Conn) (k : Nat) (c : Conn)
    (e : Pkt × Wire) (he : P e = false) (h : c.pkts = (l.getD k {}).pkts ++ [e]) :
    ((l.set k c).flatMap (·.pkts)).filter P = (l.flatMap (·.pkts)).filter P := by
  induction l generalizing k with
  | nil => simp
  | cons a t ih =>
    cases k with
    | zero => simp at h; simp [h, he]
    | succ k => simp at h; simp [ih k h]

/-! ### the primitives -/


@[simp] theorem setConn_pid (w : World) (k : Nat) (c : Conn) : (setConn w k c).pid = w.pid := rfl
@[simp] theorem logPkt_pid (w : World) (k : Nat) (p : Pkt) (x : Wire) :
    (logPkt w k p x).pid = w.pid := rfl
@[simp] theorem kill_pid (w : World) (k : Nat) : (kill w k).pid = w.pid := rfl
@[simp] theorem setConn_broker (w : World) (k : Nat) (c : Conn) :
    (setConn w k c).broker = w.broker := rfl
@[simp] theorem logPkt_broker (w : World) (k : Nat) (p : Pkt) (x : Wire) :
    (logPkt w k p x).broker = w.broker := rfl
@[simp] theorem kill_broker (w : World) (k : Nat) : (kill w k).broker = w.broker := rfl
@[simp] theorem setConn_stuck (w : World) (k : Nat) (c : Conn) :
    (setConn w k c).stuck = w.stuck := rfl
@[simp] theorem logPkt_stuck (w : World) (k : Nat) (p : Pkt) (x : Wire) :
    (logPkt w k p x).stuck = w.stuck := rfl
@[simp] theorem kill_stuck (w : World) (k : Nat) : (kill w k).stuck = w.stuck := rfl
@[simp] theorem setConn_len (w : World) (k : Nat) (c : Conn) :
    (setConn w k c).conns.length = w.conns.length := by simp [setConn]
@[simp] theorem logPkt_len (w : World) (k : Nat) (p : Pkt) (x : Wire) :
    (logPkt w k p x).conns.length = w.conns.length := by simp [logPkt]
@[simp] theorem kill_len (w : World) (k : Nat) : (kill w k).conns.length = w.conns.length := by
  simp [kill]

theorem setConn_mod (w : World) (k : Nat) (c : Conn) : Mod w (setConn w k c) := ⟨rfl, by simp⟩
theorem logPkt_mod (w : World) (k : Nat) (p : Pkt) (x : Wire) : Mod w (logPkt w k p x) :=
  ⟨rfl, by simp⟩
theorem kill_mod (w : World) (k : Nat) : Mod w (kill w k) := ⟨rfl, by simp⟩

theorem allPkts_setConn_same (w : World) (k : Nat) (c : Conn)
    (h : c.pkts = (getConn w k).pkts) : allPkts (setConn w k c) = allPkts w :=
  flatMap_set_same w.conns k c h

@[simp] theorem allPkts_kill (w : World) (k : Nat) : allPkts (kill w k) = allPkts w :=
  allPkts_setConn_same w k _ rfl

theorem allPkts_logPkt (w : World) (k : Nat) (p : Pkt) (x : Wire) (hk : k + 1 = w.conns.length) :
    allPkts (logPkt w k p x) = allPkts w ++ [(p, x)] :=
  flatMap_set_last w.conns k _ (p, x) hk rfl

theorem allPkts_logPkt_filter (P : Pkt × Wire → Bool) (w : World) (k : Nat) (p : Pkt) (x : Wire)
    (h : P (p, x) = false) : (allPkts (logPkt w k p x)).filter P = (allPkts w).filter P :=
  filter_flatMap_set_other P w.conns k _ (p, x) h rfl

theorem getConn_setConn_alive (w : World) (k : Nat) (c : Conn) :
    (getConn (setConn w k c) k).alive = true → c.alive = true ∨ (getConn w k).alive = true := by
  unfold getConn setConn
  by_cases hk : k < w.conns.length
  · simp [List.getD_eq_getElem?_getD, hk]
    intro h; exact Or.inl h
  · simp [List.getD_eq_getElem?_getD, hk]

/-- what the network did to a packet that reached the broker -/
def Wire.processed : Wire → Bool
  | .sent .ok => true
  | .sent .lostAck => true
  | .sent .silent => true
  | _ => false

theorem nextFault_snd (w : World) : (nextFault w).2 = { w with faults := w.faults.tail } := by
  unfold nextFault
  cases h : w.faults with
  | nil => cases w; simp_all
  | cons f r => rfl

/-- effect of one request packet on the wire -/
structure SendEff (w : World) (k : Nat) (p : Pkt) (waits : Bool) (w' : World) (s : Sent)
    (x : Wire) : Prop where
  mod : Mod w w'
  pid : w'.pid = w.pid
  pkts : allPkts w' = allPkts w ++ [(p, x)]
  broker : w'.broker = if x.processed then w.broker.process p else w.broker
  ackOk : waits = true → (s = .acked ↔ x = .sent .ok)
  okAck : x = .sent .ok → s = .acked
  stuck : w'.stuck = (w.stuck || decide (s = .stuck))
  dead : (getConn w k).alive = false → x = .dead
  alive : (getConn w' k).alive = true → (getConn w k).alive = true

theorem allPkts_congr {w w' : World} (h : w'.conns = w.conns) : allPkts w' = allPkts w := by
  unfold allPkts; rw [h]

theorem getConn_congr {w w' : World} (h : w'.conns = w.conns) (k : Nat) :
    getConn w' k = getConn w k := by
  unfold getConn; rw [h]

theorem getConn_kill_alive (w : World) (k : Nat) :
    (getConn (kill w k) k).alive = true → (getConn w k).alive = true := by
  intro h
  have := getConn_setConn_alive w k _ h
  simpa using this

theorem send_eff (w : World) (k : Nat) (p : Pkt) (waits : Bool) (hk : k + 1 = w.conns.length) :
    ∃ x, SendEff w k p waits (send w k p waits).1 (send w k p waits).2 x := by
  unfold send
  by_cases ha : (getConn w k).alive = true
  · simp only [ha, not_true_eq_false, if_false]
    have hnf := nextFault_snd w
    rcases hq : nextFault w with ⟨f, w1⟩
    rw [hq] at hnf
    simp only at hnf
    subst hnf
    have hk1 : k + 1 = ({ w with faults := w.faults.tail } : World).conns.length := hk
    have hpk : ∀ x, allPkts (logPkt { w with faults := w.faults.tail } k p x)
        = allPkts w ++ [(p, x)] := fun x => allPkts_logPkt _ k p x hk1
    have hpkk : ∀ x, allPkts (kill (logPkt { w with faults := w.faults.tail } k p x) k)
        = allPkts w ++ [(p, x)] := fun x => (allPkts_kill _ _).trans (hpk x)
    have hlen : ∀ x, (logPkt { w with faults := w.faults.tail } k p x).conns.length
        = w.conns.length := fun x => logPkt_len _ k p x
    have hlenk : ∀ x, (kill (logPkt { w with faults := w.faults.tail } k p x) k).conns.length
        = w.conns.length := fun x => (kill_len _ _).trans (hlen x)
    cases f
    · exact ⟨.sent .ok, ⟨⟨rfl, hlen _⟩, rfl, hpk _, rfl, by simp, by simp, by simp, by simp [ha],
        fun _ => ha⟩⟩
    · exact ⟨.sent .writeFail, ⟨⟨rfl, hlenk _⟩, rfl, hpkk _, rfl, by simp, by simp, by simp,
        by simp [ha], fun _ => ha⟩⟩
    · exact ⟨.sent .lostReq, ⟨⟨rfl, hlenk _⟩, rfl, hpkk _, rfl, by intro hw; simp [hw], by simp,
        by cases waits <;> simp, by simp [ha], fun _ => ha⟩⟩
    · exact ⟨.sent .lostAck, ⟨⟨rfl, hlenk _⟩, rfl, hpkk _, rfl, by intro hw; simp [hw], by simp,
        by cases waits <;> simp, by simp [ha], fun _ => ha⟩⟩
    · cases waits
      · exact ⟨.sent .silent, ⟨⟨rfl, hlen _⟩, rfl, hpk _, rfl, by simp, by simp, by simp,
          by simp [ha], fun _ => ha⟩⟩
      · simp only [not_true_eq_false, if_false]
        split
        · exact ⟨.sent .silent, ⟨⟨rfl, hlen _⟩, rfl, hpk _, rfl, by simp, by simp, by simp,
            by simp [ha], fun _ => ha⟩⟩
        · exact ⟨.sent .silent, ⟨⟨rfl, hlen _⟩, rfl, hpk _, rfl, by simp, by simp, by simp,
            by simp [ha], fun _ => ha⟩⟩
  · have ha' : (getConn w k).alive = false := by simpa using ha
    simp only [ha', Bool.false_eq_true, not_false_eq_true, if_true]
    refine ⟨.dead, ⟨⟨rfl, by simp⟩, rfl, allPkts_logPkt w k p .dead hk, rfl, ?_, ?_, ?_, ?_, ?_⟩⟩
    · simp
    · simp
    · simp
    · intro _; rfl
    · intro h
      have := getConn_setConn_alive w k _ h
      simp [ha'] at this

/-! ### per-message view of the log -/

def isPub : Pkt → Bool
  | .publish .. => true
  | _ => false

def isRel : Pkt → Bool
  | .pubrel .. => true
  | _ => false

/-- the packet is a PUBLISH or PUBREL of message `m` -/
def about (m : Nat) : Pkt → Bool
  | .publish m' _ _ _ => decide (m' = m)
  | .pubrel _ m' => decide (m' = m)
  | _ => false

def pktId : Pkt → Option Nat
  | .publish _ _ i _ => some i
  | .pubrel i _ => some i
  | _ => none

def pktQos : Pkt → Option Nat
  | .publish _ q _ _ => some q
  | _ => none

def pktDup : Pkt → Bool
  | .publish _ _ _ d => d
  | _ => false

/-- a PUBREL whose PUBCOMP arrived -/
def okRel (pw : Pkt × Wire) : Prop := isRel pw.1 = true ∧ pw.2 = .sent .ok

/-- the PUBLISH / PUBREL attempts for message `m`, in global order -/
def msgPkts (w : World) (m : Nat) : List (Pkt × Wire) :=
  (allPkts w).filter (fun pw => about m pw.1)

/-- shape of the attempts of one message (with its identifier `pid`) -/
structure Good (pid : Option Nat) (l : List (Pkt × Wire)) : Prop where
  id : ∀ pw ∈ l, pktId pw.1 = pid
  qos : ∀ a ∈ l, ∀ b ∈ l, isPub a.1 = true → isPub b.1 = true → pktQos a.1 = pktQos b.1
  order : l.Pairwise (fun a b => isPub b.1 = true →
    isPub a.1 = true ∧ pktDup b.1 = true ∧ pktQos b.1 ≠ some 0)
  head : ∀ a, l.head? = some a → pktDup a.1 = false
  fin : l.Pairwise (fun a _ => ¬ okRel a)

/-- no attempt yet. The identifier may already be set: the caller may have put one on the message
    before Publish (`Message.ID ≠ 0`, see Proofs/RetryPreset); from `init s` it is `none` until the
    first attempt (`Mqtt.C15.Preset.fresh_ids_untouched`). -/
def Fresh (_pid : Option Nat) (l : List (Pkt × Wire)) : Prop := l = []

/-- only PUBLISH attempts so far, all with QoS `q` and identifier `i` -/
def Pubd (q i : Nat) (pid : Option Nat) (l : List (Pkt × Wire)) : Prop :=
  pid = some i ∧ l ≠ [] ∧ ∀ pw ∈ l, isPub pw.1 = true ∧ pktQos pw.1 = some q

/-- identifier assigned, no PUBCOMP received yet -/
def Open (i : Nat) (pid : Option Nat) (l : List (Pkt × Wire)) : Prop :=
  pid = some i ∧ ∀ pw ∈ l, ¬ okRel pw

theorem good_nil (pid : Option Nat) : Good pid [] :=
  ⟨by simp, by simp, List.Pairwise.nil, by simp, List.Pairwise.nil⟩

theorem Pubd.open {q i : Nat} {pid : Option Nat} {l : List (Pkt × Wire)} (h : Pubd q i pid l) :
    Open i pid l := by
  refine ⟨h.1, fun pw hpw hr => ?_⟩
  have := (h.2.2 pw hpw).1
  cases hp : pw.1 <;> simp [hp, isPub, isRel, okRel] at this hr

theorem good_first_pub (m q i : Nat) (x : Wire) :
    Good (some i) [(.publish m q i false, x)] ∧ Pubd q i (some i) [(.publish m q i false, x)] := by
  refine ⟨⟨?_, ?_, ?_, ?_, ?_⟩, rfl, by simp, ?_⟩
  · simp [pktId]
  · simp
  · simp
  · simp [pktDup]
  · simp
  · simp [isPub, pktQos]

theorem good_re_pub {pid : Option Nat} {l : List (Pkt × Wire)} (m : Nat) {q i : Nat} (x : Wire)
    (hg : Good pid l) (hp : Pubd q i pid l) (hq : q ≠ 0) :
    Good pid (l ++ [(.publish m q i true, x)]) ∧ Pubd q i pid (l ++ [(.publish m q i true, x)]) := by
  obtain ⟨hpid, hne, hall⟩ := hp
  refine ⟨⟨?_, ?_, ?_, ?_, ?_⟩, hpid, by simp, ?_⟩
  · intro pw hpw
    rcases List.mem_append.1 hpw with h | h
    · exact hg.id pw h
    · simp at h; subst h; simp [pktId, hpid]
  · intro a ha b hb _ _
    have key : ∀ c ∈ l ++ [(Pkt.publish m q i true, x)], pktQos c.1 = some q := by
      intro c hc
      rcases List.mem_append.1 hc with h | h
      · exact (hall c h).2
      · simp at h; subst h; rfl
    rw [key a ha, key b hb]
  · rw [List.pairwise_append]
    refine ⟨hg.order, by simp, ?_⟩
    intro a ha b hb _
    simp at hb; subst hb
    exact ⟨(hall a ha).1, rfl, by simp [pktQos, hq]⟩
  · intro a ha
    cases l with
    | nil => exact absurd rfl hne
    | cons c t => exact hg.head a (by simpa using ha)
  · rw [List.pairwise_append]
    refine ⟨hg.fin, by simp, ?_⟩
    intro a ha b _
    exact (Pubd.open ⟨hpid, hne, hall⟩).2 a ha
  · intro pw hpw
    rcases List.mem_append.1 hpw with h | h
    · exact hall pw h
    · simp at h; subst h; exact ⟨rfl, rfl⟩

theorem good_rel {pid : Option Nat} {l : List (Pkt × Wire)} (m : Nat) {i : Nat} (y : Wire)
    (hg : Good pid l) (ho : Open i pid l) :
    Good pid (l ++ [(.pubrel i m, y)]) ∧
      (y ≠ .sent .ok → Open i pid (l ++ [(.pubrel i m, y)])) := by
  obtain ⟨hpid, hall⟩ := ho
  refine ⟨⟨?_, ?_, ?_, ?_, ?_⟩, ?_⟩
  · intro pw hpw
    rcases List.mem_append.1 hpw with h | h
    · exact hg.id pw h
    · simp at h; subst h; simp [pktId, hpid]
  · intro a ha b hb hpa hpb
    rcases List.mem_append.1 ha with h | h
    · rcases List.mem_append.1 hb with h' | h'
      · exact hg.qos a h b h' hpa hpb
      · simp at h'; subst h'; simp [isPub] at hpb
    · simp at h; subst h; simp [isPub] at hpa
  · rw [List.pairwise_append]
    refine ⟨hg.order, by simp, ?_⟩
    intro a _ b hb hpb
    simp at hb; subst hb; simp [isPub] at hpb
  · intro a ha
    cases l with
    | nil => simp at ha; subst ha; rfl
    | cons c t => simp at ha; subst ha; exact hg.head _ (by simp)
  · rw [List.pairwise_append]
    refine ⟨hg.fin, by simp, ?_⟩
    intro a ha b _
    exact hall a ha
  · intro hy
    refine ⟨hpid, fun pw hpw => ?_⟩
    rcases List.mem_append.1 hpw with h | h
    · exact hall pw h
    · simp at h; subst h
      intro hr; exact hy hr.2

/-! ### the view of one message in a world -/

theorem lookupPid_congr {w w' : World} (h : w'.pid = w.pid) (m : Nat) :
    lookupPid w' m = lookupPid w m := by
  unfold lookupPid; rw [h]

theorem lookupPid_append_self {w w' : World} {m id : Nat} (hp : w'.pid = w.pid ++ [(m, id)])
    (h : lookupPid w m = none) : lookupPid w' m = some id := by
  unfold lookupPid at *
  rw [hp, List.find?_append]
  cases hf : w.pid.find? (fun e => decide (e.1 = m)) with
  | some e => simp [hf] at h
  | none => simp

theorem lookupPid_append_other {w w' : World} {m m' id : Nat} (hp : w'.pid = w.pid ++ [(m, id)])
    (hne : m' ≠ m) : lookupPid w' m' = lookupPid w m' := by
  unfold lookupPid
  rw [hp, List.find?_append]
  have : ([(m, id)] : List (Nat × Nat)).find? (fun e => decide (e.1 = m')) = none := by
    simp [Ne.symm hne]
  rw [this]; simp

theorem about_publish (m m' q i : Nat) (d : Bool) : about m (.publish m' q i d) = decide (m' = m) :=
  rfl
theorem about_pubrel (m m' i : Nat) : about m (.pubrel i m') = decide (m' = m) := rfl

theorem about_cases {m : Nat} {p : Pkt} (h : about m p = true) :
    (∃ q i d, p = .publish m q i d) ∨ (∃ i, p = .pubrel i m) := by
  cases p <;> simp [about] at h
  · subst h; exact Or.inl ⟨_, _, _, rfl⟩
  · subst h; exact Or.inr ⟨_, rfl⟩

theorem msgPkts_of_pkts_eq {w w' : World} (h : allPkts w' = allPkts w) (m : Nat) :
    msgPkts w' m = msgPkts w m := by
  unfold msgPkts; rw [h]

theorem msgPkts_append {w w' : World} {p : Pkt} {x : Wire}
    (h : allPkts w' = allPkts w ++ [(p, x)]) (m : Nat) :
    msgPkts w' m = if about m p = true then msgPkts w m ++ [(p, x)] else msgPkts w m := by
  unfold msgPkts
  rw [h, List.filter_append]
  by_cases ha : about m p = true <;> simp [ha]

theorem mem_msgPkts {w : World} {m : Nat} {pw : Pkt × Wire} :
    pw ∈ msgPkts w m ↔ pw ∈ allPkts w ∧ about m pw.1 = true := by
  unfold msgPkts; simp

/-- `w'` shows the same view of message `m` as `w` -/
def SameView (w w' : World) (m : Nat) : Prop :=
  lookupPid w' m = lookupPid w m ∧ msgPkts w' m = msgPkts w m

theorem SameView.rfl' (w : World) (m : Nat) : SameView w w m := ⟨rfl, rfl⟩

theorem SameView.trans {a b c : World} {m : Nat} (h1 : SameView a b m) (h2 : SameView b c m) :
    SameView a c m := ⟨h2.1.trans h1.1, h2.2.trans h1.2⟩

theorem sameView_of_eq {w w' : World} (hp : w'.pid = w.pid) (hk : allPkts w' = allPkts w)
    (m : Nat) : SameView w w' m := ⟨lookupPid_congr hp m, msgPkts_of_pkts_eq hk m⟩

/-! ### ownership of messages by tasks and retry queue entries -/

def Task.msg : Task → Option (Nat × Nat)
  | .req (.pub m q) => some (m, q)
  | _ => none

def Entry.msg : Entry → Option Nat
  | .rePublish m _ => some m
  | .rePubRel m => some m
  | .qPub m _ => some m
  | _ => none

def accMsgs (w : World) : List Nat :=
  w.accepted.filterMap (fun r => match r with | .pub m _ => some m | _ => none)

theorem mem_accMsgs {w : World} {m : Nat} : m ∈ accMsgs w ↔ ∃ q, Req.pub m q ∈ w.accepted := by
  unfold accMsgs
  rw [List.mem_filterMap]
  constructor
  · rintro ⟨r, hr, h⟩
    cases r <;> simp at h
    subst h; exact ⟨_, hr⟩
  · rintro ⟨q, hq⟩
    exact ⟨_, hq, rfl⟩

/-- what an entry of the retry queue may assume about its message -/
def Perm (w : World) : Entry → Prop
  | .qPub m q => q ≠ 0 ∧ Req.pub m q ∈ w.accepted ∧ Fresh (lookupPid w m) (msgPkts w m)
  | .rePublish m q =>
    q ≠ 0 ∧ Req.pub m q ∈ w.accepted ∧ ∃ i, Pubd q i (lookupPid w m) (msgPkts w m)
  | .rePubRel m => Req.pub m 2 ∈ w.accepted ∧ ∃ i, Open i (lookupPid w m) (msgPkts w m)
  | _ => True

theorem Perm.transfer {w w' : World} {e : Entry} (hacc : w.accepted ⊆ w'.accepted)
    (hv : ∀ m, e.msg = some m → SameView w w' m) (h : Perm w e) : Perm w' e := by
  cases e with
  | qPub m q =>
    obtain ⟨h1, h2⟩ := hv m rfl
    simp only [Perm] at *
    rw [h1, h2]; exact ⟨h.1, hacc h.2.1, h.2.2⟩
  | rePublish m q =>
    obtain ⟨h1, h2⟩ := hv m rfl
    simp only [Perm] at *
    rw [h1, h2]; exact ⟨h.1, hacc h.2.1, h.2.2⟩
  | rePubRel m =>
    obtain ⟨h1, h2⟩ := hv m rfl
    simp only [Perm] at *
    rw [h1, h2]; exact ⟨hacc h.1, h.2⟩
  | reSub _ => trivial
  | reUnsub _ => trivial
  | qSub _ => trivial
  | qUnsub _ => trivial

/-- the per-message phase invariant, relative to the fresh messages `fr` still owned by queued
    tasks and the entries `es` owned by the retry queue (or by the running `Retry`) -/
structure PInv (w : World) (fr : List (Nat × Nat)) (es : List Entry) : Prop where
  cliLast : ∀ k, w.cli = some k → k + 1 = w.conns.length
  good : ∀ m, Good (lookupPid w m) (msgPkts w m)
  nodup : (fr.map (·.1) ++ es.filterMap Entry.msg).Nodup
  fresh : ∀ mq ∈ fr, Req.pub mq.1 mq.2 ∈ w.accepted ∧ Fresh (lookupPid w mq.1) (msgPkts w mq.1)
  perm : ∀ e ∈ es, Perm w e
  accNodup : (accMsgs w).Nodup
  unacc : ∀ m, m ∉ accMsgs w → Fresh (lookupPid w m) (msgPkts w m)
  pubAcc : ∀ m, ∀ pw ∈ msgPkts w m, ∀ q, pktQos pw.1 = some q → Req.pub m q ∈ w.accepted

/-- the message owners in `fr`, `es` -/
def owners (fr : List (Nat × Nat)) (es : List Entry) : List Nat :=
  fr.map (·.1) ++ es.filterMap Entry.msg

theorem PInv.transfer {w w' : World} {fr : List (Nat × Nat)} {es : List Entry} {m : Nat}
    (hI : PInv w fr es) (hcli : w'.cli = w.cli) (hlen : w'.conns.length = w.conns.length)
    (hacc : w'.accepted = w.accepted)
    (hoth : ∀ m', m' ≠ m → SameView w w' m')
    (hgood : Good (lookupPid w' m) (msgPkts w' m))
    (hne : m ∉ owners fr es) (hm : m ∈ accMsgs w)
    (hq : ∀ pw ∈ msgPkts w' m, ∀ q, pktQos pw.1 = some q → Req.pub m q ∈ w.accepted) :
    PInv w' fr es := by
  have haccm : accMsgs w' = accMsgs w := by unfold accMsgs; rw [hacc]
  refine ⟨?_, ?_, hI.nodup, ?_, ?_, ?_, ?_, ?_⟩
  · intro k hk; rw [hlen]; exact hI.cliLast k (hcli ▸ hk)
  · intro m'
    by_cases hm' : m' = m
    · subst hm'; exact hgood
    · obtain ⟨h1, h2⟩ := hoth m' hm'
      rw [h1, h2]; exact hI.good m'
  · intro mq hmq
    have hne' : mq.1 ≠ m := by
      intro h; apply hne; unfold owners
      exact List.mem_append_left _ (h ▸ List.mem_map_of_mem hmq)
    obtain ⟨h1, h2⟩ := hoth mq.1 hne'
    rw [h1, h2, hacc]; exact hI.fresh mq hmq
  · intro e he
    refine Perm.transfer (by rw [hacc]; exact fun _ h => h) ?_ (hI.perm e he)
    intro m' hm'
    apply hoth
    intro h; subst h; apply hne; unfold owners
    exact List.mem_append_right _ (List.mem_filterMap.2 ⟨e, he, hm'⟩)
  · rw [haccm]; exact hI.accNodup
  · intro m' hm'
    rw [haccm] at hm'
    have hne' : m' ≠ m := fun h => hm' (h ▸ hm)
    obtain ⟨h1, h2⟩ := hoth m' hne'
    rw [h1, h2]; exact hI.unacc m' hm'
  · intro m' pw hpw q hq'
    rw [hacc]
    by_cases hm' : m' = m
    · subst hm'; exact hq pw hpw q hq'
    · rw [(hoth m' hm').2] at hpw; exact hI.pubAcc m' pw hpw q hq'

/-- nothing about any message changed -/
theorem PInv.same {w w' : World} {fr : List (Nat × Nat)} {es : List Entry}
    (hI : PInv w fr es) (hcli : w'.cli = w.cli) (hlen : w'.conns.length = w.conns.length)
    (hacc : w'.accepted = w.accepted) (hv : ∀ m, SameView w w' m) : PInv w' fr es := by
  have haccm : accMsgs w' = accMsgs w := by unfold accMsgs; rw [hacc]
  refine ⟨?_, ?_, hI.nodup, ?_, ?_, ?_, ?_, ?_⟩
  · intro k hk; rw [hlen]; exact hI.cliLast k (hcli ▸ hk)
  · intro m; rw [(hv m).1, (hv m).2]; exact hI.good m
  · intro mq hmq; rw [(hv mq.1).1, (hv mq.1).2, hacc]; exact hI.fresh mq hmq
  · intro e he
    exact Perm.transfer (by rw [hacc]; exact fun _ h => h) (fun m _ => hv m) (hI.perm e he)
  · rw [haccm]; exact hI.accNodup
  · intro m hm; rw [haccm] at hm; rw [(hv m).1, (hv m).2]; exact hI.unacc m hm
  · intro m pw hpw q hq; rw [hacc]; rw [(hv m).2] at hpw; exact hI.pubAcc m pw hpw q hq

theorem PInv.of_mod {w w' : World} {fr : List (Nat × Nat)} {es : List Entry}
    (hI : PInv w fr es) (hm : Mod w w') (hv : ∀ m, SameView w w' m) : PInv w' fr es :=
  hI.same hm.cli hm.len hm.accepted hv

/-- `fr`, `es` may be permuted and shrunk -/
theorem PInv.sub {w : World} {fr fr' : List (Nat × Nat)} {es es' : List Entry}
    (hI : PInv w fr es) (hfr : fr' ⊆ fr) (hes : es' ⊆ es)
    (hnd : (owners fr' es').Nodup) : PInv w fr' es' :=
  ⟨hI.cliLast, hI.good, hnd, fun mq h => hI.fresh mq (hfr h), fun e h => hI.perm e (hes h),
    hI.accNodup, hI.unacc, hI.pubAcc⟩

theorem owners_perm {fr fr' : List (Nat × Nat)} {es es' : List Entry}
    (hfr : fr'.Perm fr) (hes : es'.Perm es) : (owners fr' es').Perm (owners fr es) :=
  (hfr.map _).append (hes.filterMap _)

theorem PInv.perm' {w : World} {fr fr' : List (Nat × Nat)} {es es' : List Entry}
    (hI : PInv w fr es) (hfr : fr'.Perm fr) (hes : es'.Perm es) : PInv w fr' es' :=
  hI.sub hfr.subset hes.subset ((owners_perm hfr hes).nodup_iff.2 hI.nodup)

theorem PInv.cons {w : World} {fr : List (Nat × Nat)} {es : List Entry} {h : Entry}
    (hI : PInv w fr es) (hp : Perm w h) (hne : ∀ m, h.msg = some m → m ∉ owners fr es) :
    PInv w fr (h :: es) := by
  refine ⟨hI.cliLast, hI.good, ?_, hI.fresh, ?_, hI.accNodup, hI.unacc, hI.pubAcc⟩
  · have hnd := hI.nodup
    cases hm : h.msg with
    | none => simpa [List.filterMap_cons, hm] using hnd
    | some m =>
      have := hne m hm
      unfold owners at this
      rw [List.filterMap_cons, hm]
      refine (List.perm_middle.nodup_iff).2 (List.nodup_cons.2 ⟨this, hnd⟩)
  · intro e he
    rcases List.mem_cons.1 he with h' | h'
    · subst h'; exact hp
    · exact hI.perm e h'

/-! ### leaf functions: unfolding and effects -/

def Broker.ack (b : Broker) (r : Req) : Broker := { b with acked := b.acked ++ [r] }

def Outcome.handle : Outcome → Option Entry
  | .fail h _ => h
  | _ => none

def Outcome.isStuck : Outcome → Bool
  | .stuck => true
  | _ => false

def assignPid (w : World) (k m : Nat) : World × Nat :=
  match lookupPid w m with
  | some id => (w, id)
  | none =>
    let c := getConn w k
    (setConn { w with pid := w.pid ++ [(m, (newID c.ctr).2)] } k { c with ctr := (newID c.ctr).1 },
      (newID c.ctr).2)

def pubFinish (w2 : World) (s : Sent) (k m q id : Nat) : World × Outcome :=
  match s with
  | .acked =>
    if q = 2 then relAttempt w2 k m id
    else if q = 1 then ({ w2 with broker := w2.broker.ack (.pub m 1) }, .done)
    else (w2, .done)
  | .stuck => (w2, .stuck)
  | s => (w2, .fail (if q = 0 then none else some (.rePublish m q)) (errOf s))

theorem pubAttempt_unfold (w : World) (k m q : Nat) (d : Bool) :
    pubAttempt w k m q d =
      pubFinish (send (assignPid w k m).1 k (.publish m q (assignPid w k m).2 d) (decide (q ≠ 0))).1
        (send (assignPid w k m).1 k (.publish m q (assignPid w k m).2 d) (decide (q ≠ 0))).2
        k m q (assignPid w k m).2 := by
  unfold pubAttempt assignPid pubFinish
  cases lookupPid w m <;> rfl

def relFinish (w1 : World) (s : Sent) (m : Nat) : World × Outcome :=
  match s with
  | .acked => ({ w1 with broker := w1.broker.ack (.pub m 2) }, .done)
  | .stuck => (w1, .stuck)
  | s => (w1, .fail (some (.rePubRel m)) (errOf s))

theorem relAttempt_unfold (w : World) (k m id : Nat) :
    relAttempt w k m id =
      relFinish (send w k (.pubrel id m) true).1 (send w k (.pubrel id m) true).2 m := rfl

theorem getConn_setConn_self_alive (w : World) (k : Nat) (c : Conn)
    (h : c.alive = (getConn w k).alive) :
    (getConn (setConn w k c) k).alive = (getConn w k).alive := by
  unfold getConn setConn at *
  by_cases hk : k < w.conns.length
  · simp [List.getD_eq_getElem?_getD, hk] at h ⊢; exact h
  · simp [List.getD_eq_getElem?_getD, hk]

structure AssignEff (w : World) (k m : Nat) (w1 : World) (i : Nat) : Prop where
  mod : Mod w w1
  pkts : allPkts w1 = allPkts w
  pidSelf : lookupPid w1 m = some i
  pidOther : ∀ m', m' ≠ m → lookupPid w1 m' = lookupPid w m'
  pidOld : lookupPid w m = none ∨ lookupPid w m = some i
  broker : w1.broker = w.broker
  stuck : w1.stuck = w.stuck
  alive : (getConn w1 k).alive = (getConn w k).alive

theorem assignPid_eff (w : World) (k m : Nat) :
    AssignEff w k m (assignPid w k m).1 (assignPid w k m).2 := by
  unfold assignPid
  cases h : lookupPid w m with
  | some id => exact ⟨Mod.refl w, rfl, h, fun _ _ => rfl, Or.inr h, rfl, rfl, rfl⟩
  | none =>
    refine ⟨⟨rfl, by simp⟩, ?_, ?_, ?_, Or.inl h, rfl, rfl, ?_⟩
    · exact allPkts_setConn_same _ k _ rfl
    · exact lookupPid_append_self (w := w) rfl h
    · intro m' hm'; exact lookupPid_append_other (w := w) rfl hm'
    · exact getConn_setConn_self_alive _ k _ rfl

/-- effect of `relAttempt` -/
structure RelEff (w : World) (k m id : Nat) (w' : World) (o : Outcome) (y : Wire) : Prop where
  mod : Mod w w'
  pid : w'.pid = w.pid
  pkts : allPkts w' = allPkts w ++ [(.pubrel id m, y)]
  brokerOk : y = .sent .ok → w'.broker = (w.broker.pubrel id).ack (.pub m 2)
  brokerProc : y ≠ .sent .ok → y.processed = true → w'.broker = w.broker.pubrel id
  brokerNo : y.processed = false → w'.broker = w.broker
  out : (y = .sent .ok ∧ o = .done) ∨
    (y ≠ .sent .ok ∧ (o = .stuck ∨ ∃ e, o = .fail (some (.rePubRel m)) e))
  stuck : w'.stuck = (w.stuck || o.isStuck)
  dead : (getConn w k).alive = false → y = .dead
  alive : (getConn w' k).alive = true → (getConn w k).alive = true

theorem relAttempt_eff (w : World) (k m id : Nat) (hk : k + 1 = w.conns.length) :
    ∃ y, RelEff w k m id (relAttempt w k m id).1 (relAttempt w k m id).2 y := by
  obtain ⟨y, hs⟩ := send_eff w k (.pubrel id m) true hk
  rw [relAttempt_unfold]
  generalize send w k (.pubrel id m) true = r at hs
  obtain ⟨w1, s⟩ := r
  simp only at hs
  refine ⟨y, ?_⟩
  have hb := hs.broker
  cases s
  · -- acked
    have hy : y = .sent .ok := (hs.ackOk rfl).1 rfl
    subst hy
    simp only [relFinish]
    refine ⟨hs.mod.trans ⟨rfl, rfl⟩, hs.pid, hs.pkts, ?_, ?_, ?_, Or.inl ⟨rfl, rfl⟩, ?_, hs.dead,
      hs.alive⟩
    · intro _; show w1.broker.ack _ = _; rw [hb]; rfl
    · intro h; exact absurd rfl h
    · intro h; simp [Wire.processed] at h
    · simpa [Outcome.isStuck] using hs.stuck
  all_goals
    have hy : y ≠ .sent .ok := fun h => by have := hs.okAck h; simp at this
    simp only [relFinish]
    refine ⟨hs.mod, hs.pid, hs.pkts, fun h => absurd h hy, ?_, ?_, Or.inr ⟨hy, ?_⟩, ?_, hs.dead,
      hs.alive⟩
    · intro _ hp; rw [hb, hp]; rfl
    · intro hp; rw [hb, hp]; rfl
    · first
        | exact Or.inl rfl
        | exact Or.inr ⟨_, rfl⟩
    · simpa [Outcome.isStuck] using hs.stuck

/-! ### the attempts preserve the phase invariant -/

theorem sameView_send_other {w w' : World} {p : Pkt} {x : Wire} {m' : Nat}
    (hp : w'.pid = w.pid) (hk : allPkts w' = allPkts w ++ [(p, x)]) (ha : about m' p = false) :
    SameView w w' m' := by
  refine ⟨lookupPid_congr hp m', ?_⟩
  rw [msgPkts_append hk m']; simp [ha]

theorem about_publish_ne {m m' : Nat} (q i : Nat) (d : Bool) (h : m' ≠ m) :
    about m' (.publish m q i d) = false := by simp [about, Ne.symm h]

theorem about_pubrel_ne {m m' : Nat} (i : Nat) (h : m' ≠ m) :
    about m' (.pubrel i m) = false := by simp [about, Ne.symm h]

theorem relAttempt_inv {w : World} {fr : List (Nat × Nat)} {es : List Entry} {k m i : Nat}
    (hI : PInv w fr es) (hk : w.cli = some k) (hne : m ∉ owners fr es)
    (hacc : Req.pub m 2 ∈ w.accepted) (ho : Open i (lookupPid w m) (msgPkts w m)) :
    Mod w (relAttempt w k m i).1 ∧
    PInv (relAttempt w k m i).1 fr ((relAttempt w k m i).2.handle.toList ++ es) ∧
    (∀ h, (relAttempt w k m i).2.handle = some h → h = .rePubRel m) := by
  obtain ⟨y, he⟩ := relAttempt_eff w k m i (hI.cliLast k hk)
  generalize relAttempt w k m i = r at he
  obtain ⟨w', o⟩ := r
  simp only at he ⊢
  have hview : msgPkts w' m = msgPkts w m ++ [(.pubrel i m, y)] := by
    rw [msgPkts_append he.pkts m]; simp [about]
  have hpid : lookupPid w' m = lookupPid w m := lookupPid_congr he.pid m
  have hg := good_rel m y (hI.good m) ho
  have hI' : PInv w' fr es := by
    refine hI.transfer he.mod.cli he.mod.len he.mod.accepted ?_ ?_ hne
      (mem_accMsgs.2 ⟨_, hacc⟩) ?_
    · intro m' hm'
      exact sameView_send_other he.pid he.pkts (about_pubrel_ne i hm')
    · rw [hview, hpid]; exact hg.1
    · intro pw hpw q hq
      rw [hview] at hpw
      rcases List.mem_append.1 hpw with h | h
      · exact hI.pubAcc m pw h q hq
      · simp at h; subst h; simp [pktQos] at hq
  refine ⟨he.mod, ?_, ?_⟩
  · rcases he.out with ⟨_, ho'⟩ | ⟨hy, ho' | ⟨e, ho'⟩⟩
    · subst ho'; exact hI'
    · subst ho'; exact hI'
    · subst ho'
      simp only [Outcome.handle, Option.toList, List.cons_append, List.nil_append]
      refine hI'.cons ?_ ?_
      · refine ⟨he.mod.accepted ▸ hacc, i, ?_⟩
        rw [hview, hpid]; exact hg.2 hy
      · intro m' hm'; simp [Entry.msg] at hm'; subst hm'; exact hne
  · intro h hh
    rcases he.out with ⟨_, ho'⟩ | ⟨hy, ho' | ⟨e, ho'⟩⟩
    · subst ho'; simp [Outcome.handle] at hh
    · subst ho'; simp [Outcome.handle] at hh
    · subst ho'; simp [Outcome.handle] at hh; exact hh.symm

theorem pubAttempt_inv {w : World} {fr : List (Nat × Nat)} {es : List Entry} {k m q : Nat}
    {d : Bool} (hI : PInv w fr es) (hk : w.cli = some k) (hne : m ∉ owners fr es)
    (hacc : Req.pub m q ∈ w.accepted)
    (hpre : (d = false ∧ Fresh (lookupPid w m) (msgPkts w m)) ∨
      (d = true ∧ q ≠ 0 ∧ ∃ i, Pubd q i (lookupPid w m) (msgPkts w m))) :
    Mod w (pubAttempt w k m q d).1 ∧
    PInv (pubAttempt w k m q d).1 fr ((pubAttempt w k m q d).2.handle.toList ++ es) ∧
    (∀ h, (pubAttempt w k m q d).2.handle = some h → h.msg = some m) := by
  rw [pubAttempt_unfold]
  have ha := assignPid_eff w k m
  generalize assignPid w k m = r1 at ha ⊢
  obtain ⟨w1, i⟩ := r1
  simp only at ha ⊢
  have hk1 : k + 1 = w1.conns.length := by rw [ha.mod.len]; exact hI.cliLast k hk
  obtain ⟨x, hs⟩ := send_eff w1 k (.publish m q i d) (decide (q ≠ 0)) hk1
  generalize send w1 k (.publish m q i d) (decide (q ≠ 0)) = r2 at hs ⊢
  obtain ⟨w2, s⟩ := r2
  simp only at hs ⊢
  have hmod2 : Mod w w2 := ha.mod.trans hs.mod
  have hpid2 : lookupPid w2 m = some i := (lookupPid_congr hs.pid m).trans ha.pidSelf
  have hview2 : msgPkts w2 m = msgPkts w m ++ [(.publish m q i d, x)] := by
    rw [msgPkts_append hs.pkts m, msgPkts_of_pkts_eq ha.pkts]; simp [about]
  have hoth : ∀ m', m' ≠ m → SameView w w2 m' := by
    intro m' hm'
    refine SameView.trans ⟨ha.pidOther m' hm', msgPkts_of_pkts_eq ha.pkts m'⟩ ?_
    exact sameView_send_other hs.pid hs.pkts (about_publish_ne q i d hm')
  have hg : Good (lookupPid w2 m) (msgPkts w2 m) ∧ Pubd q i (lookupPid w2 m) (msgPkts w2 m) := by
    rw [hpid2, hview2]
    rcases hpre with ⟨hd, hf2⟩ | ⟨hd, hq, i0, hp⟩
    · subst hd; rw [hf2]; exact good_first_pub m q i x
    · subst hd
      have hi : i0 = i := by
        rcases ha.pidOld with h | h
        · rw [hp.1] at h; simp at h
        · rw [hp.1] at h; simpa using h
      subst hi
      have := good_re_pub m x (hI.good m) hp hq
      rw [hp.1] at this; exact this
  have hI2 : PInv w2 fr es := by
    refine hI.transfer hmod2.cli hmod2.len hmod2.accepted hoth hg.1 hne
      (mem_accMsgs.2 ⟨_, hacc⟩) ?_
    intro pw hpw q' hq'
    have := (hg.2.2.2 pw hpw).2
    rw [this] at hq'; cases hq'; exact hacc
  have hacc2 : Req.pub m q ∈ w2.accepted := hmod2.accepted ▸ hacc
  cases s
  · -- acked
    simp only [pubFinish]
    by_cases hq2 : q = 2
    · subst hq2
      simp only [if_true]
      have := relAttempt_inv (k := k) (i := i) hI2 (hmod2.cli ▸ hk) hne hacc2 hg.2.open
      refine ⟨hmod2.trans this.1, this.2.1, ?_⟩
      intro h hh; rw [this.2.2 h hh]; rfl
    · simp only [if_neg hq2]
      by_cases hq1 : q = 1
      · simp only [if_pos hq1]
        refine ⟨hmod2.trans ⟨rfl, rfl⟩, ?_, by simp [Outcome.handle]⟩
        simp only [Outcome.handle, Option.toList, List.nil_append]
        exact hI2.same rfl rfl rfl (fun m' => sameView_of_eq rfl rfl m')
      · simp only [if_neg hq1]
        exact ⟨hmod2, by simpa [Outcome.handle] using hI2, by simp [Outcome.handle]⟩
  · -- failed
    simp only [pubFinish]
    refine ⟨hmod2, ?_, ?_⟩
    · by_cases hq0 : q = 0
      · simpa [Outcome.handle, hq0] using hI2
      · simp only [Outcome.handle, if_neg hq0, Option.toList, List.cons_append, List.nil_append]
        refine hI2.cons ⟨hq0, hacc2, i, hg.2⟩ ?_
        intro m' hm'; simp [Entry.msg] at hm'; subst hm'; exact hne
    · intro h hh
      by_cases hq0 : q = 0
      · simp [Outcome.handle, hq0] at hh
      · simp [Outcome.handle, hq0] at hh; subst hh; rfl
  · -- timedOut
    simp only [pubFinish]
    refine ⟨hmod2, ?_, ?_⟩
    · by_cases hq0 : q = 0
      · simpa [Outcome.handle, hq0] using hI2
      · simp only [Outcome.handle, if_neg hq0, Option.toList, List.cons_append, List.nil_append]
        refine hI2.cons ⟨hq0, hacc2, i, hg.2⟩ ?_
        intro m' hm'; simp [Entry.msg] at hm'; subst hm'; exact hne
    · intro h hh
      by_cases hq0 : q = 0
      · simp [Outcome.handle, hq0] at hh
      · simp [Outcome.handle, hq0] at hh; subst hh; rfl
  · -- stuck
    simp only [pubFinish]
    exact ⟨hmod2, by simpa [Outcome.handle] using hI2, by simp [Outcome.handle]⟩

/-! ### SUBSCRIBE / UNSUBSCRIBE attempts -/

def bumpCtr (w : World) (k : Nat) : World :=
  setConn w k { getConn w k with ctr := (newID (getConn w k).ctr).1 }

def subFinish (w1 : World) (s : Sent) (subs : List Subscription) : World × Outcome :=
  match s with
  | .acked => ({ w1 with broker := w1.broker.ack (.sub subs) }, .done)
  | .stuck => (w1, .stuck)
  | s => (w1, .fail (some (.reSub subs)) (errOf s))

theorem subAttempt_unfold (w : World) (k : Nat) (subs : List Subscription) :
    subAttempt w k subs =
      subFinish (send (bumpCtr w k) k (.subscribe (newID (getConn w k).ctr).2 subs) true).1
        (send (bumpCtr w k) k (.subscribe (newID (getConn w k).ctr).2 subs) true).2 subs := rfl

def unsubFinish (w1 : World) (s : Sent) (ts : List Bytes) : World × Outcome :=
  match s with
  | .acked => ({ w1 with broker := w1.broker.ack (.unsub ts) }, .done)
  | .stuck => (w1, .stuck)
  | s => (w1, .fail (some (.reUnsub ts)) (errOf s))

theorem unsubAttempt_unfold (w : World) (k : Nat) (ts : List Bytes) :
    unsubAttempt w k ts =
      unsubFinish (send (bumpCtr w k) k (.unsubscribe (newID (getConn w k).ctr).2 ts) true).1
        (send (bumpCtr w k) k (.unsubscribe (newID (getConn w k).ctr).2 ts) true).2 ts := rfl

/-- the QoS 2 relevant part of the broker is unchanged -/
structure BSame (b b' : Broker) : Prop where
  method : b'.method = b.method
  q2 : b'.q2 = b.q2
  stash : b'.stash = b.stash
  delivered : b'.delivered = b.delivered
  acked : ∀ m q, Req.pub m q ∈ b'.acked ↔ Req.pub m q ∈ b.acked

theorem BSame.rfl' (b : Broker) : BSame b b := ⟨rfl, rfl, rfl, rfl, fun _ _ => Iff.rfl⟩

theorem BSame.trans {a b c : Broker} (h1 : BSame a b) (h2 : BSame b c) : BSame a c :=
  ⟨h2.method.trans h1.method, h2.q2.trans h1.q2, h2.stash.trans h1.stash,
    h2.delivered.trans h1.delivered, fun m q => (h2.acked m q).trans (h1.acked m q)⟩

theorem BSame.of_eq {b b' : Broker} (h : b' = b) : BSame b b' := h ▸ BSame.rfl' b

def Entry.queued : Entry → Bool
  | .qPub .. => true
  | .qSub _ => true
  | .qUnsub _ => true
  | _ => false

/-- effect of a SUBSCRIBE / UNSUBSCRIBE attempt -/
structure MiscEff (w : World) (k : Nat) (w' : World) (o : Outcome) : Prop where
  mod : Mod w w'
  view : ∀ m, SameView w w' m
  handle : ∀ h, o.handle = some h → h.msg = none ∧ h.queued = false
  bsame : BSame w.broker w'.broker
  stuck : w'.stuck = (w.stuck || o.isStuck)
  alive : (getConn w' k).alive = true → (getConn w k).alive = true

theorem bumpCtr_mod (w : World) (k : Nat) : Mod w (bumpCtr w k) := setConn_mod _ _ _
theorem bumpCtr_pkts (w : World) (k : Nat) : allPkts (bumpCtr w k) = allPkts w :=
  allPkts_setConn_same _ k _ rfl
theorem bumpCtr_alive (w : World) (k : Nat) :
    (getConn (bumpCtr w k) k).alive = (getConn w k).alive :=
  getConn_setConn_self_alive _ k _ rfl

theorem misc_eff_aux (w : World) (k : Nat) (p : Pkt) (hk : k + 1 = w.conns.length)
    (hp : ∀ m, about m p = false) (hb : ∀ b : Broker, BSame b (b.process p))
    (fin : World → Sent → World × Outcome) (r : Req) (hr : ∀ m q, r ≠ .pub m q) (h : Entry)
    (hh : h.msg = none ∧ h.queued = false)
    (hfin : ∀ w1 s, fin w1 s = match s with
      | .acked => ({ w1 with broker := w1.broker.ack r }, .done)
      | .stuck => (w1, .stuck)
      | s => (w1, .fail (some h) (errOf s))) :
    MiscEff w k (fin (send (bumpCtr w k) k p true).1 (send (bumpCtr w k) k p true).2).1
      (fin (send (bumpCtr w k) k p true).1 (send (bumpCtr w k) k p true).2).2 := by
  have hk1 : k + 1 = (bumpCtr w k).conns.length := by rw [(bumpCtr_mod w k).len]; exact hk
  obtain ⟨x, hs⟩ := send_eff (bumpCtr w k) k p true hk1
  generalize send (bumpCtr w k) k p true = r2 at hs ⊢
  obtain ⟨w1, s⟩ := r2
  simp only at hs ⊢
  have hmod : Mod w w1 := (bumpCtr_mod w k).trans hs.mod
  have hview : ∀ m, SameView w w1 m := by
    intro m
    refine SameView.trans (sameView_of_eq (w := w) (w' := bumpCtr w k) rfl (bumpCtr_pkts w k) m) ?_
    exact sameView_send_other hs.pid hs.pkts (hp m)
  have hbs : BSame w.broker w1.broker := by
    rw [hs.broker]
    show BSame (bumpCtr w k).broker _
    split
    · exact hb _
    · exact BSame.rfl' _
  have hal : (getConn w1 k).alive = true → (getConn w k).alive = true := by
    intro h1; rw [← bumpCtr_alive]; exact hs.alive h1
  have hst : w1.stuck = (w.stuck || decide (s = .stuck)) := hs.stuck
  rw [hfin]
  cases s
  · refine ⟨hmod.trans ⟨rfl, rfl⟩, ?_, by simp [Outcome.handle], ?_, ?_, hal⟩
    · intro m; exact (hview m).trans (sameView_of_eq rfl rfl m)
    · refine hbs.trans ⟨rfl, rfl, rfl, rfl, ?_⟩
      intro m q
      simp [Broker.ack, List.mem_append, (hr m q).symm]
    · simpa [Outcome.isStuck] using hst
  · refine ⟨hmod, hview, ?_, hbs, by simpa [Outcome.isStuck] using hst, hal⟩
    intro h' hh'; simp [Outcome.handle] at hh'; subst hh'; exact hh
  · refine ⟨hmod, hview, ?_, hbs, by simpa [Outcome.isStuck] using hst, hal⟩
    intro h' hh'; simp [Outcome.handle] at hh'; subst hh'; exact hh
  · exact ⟨hmod, hview, by simp [Outcome.handle], hbs, by simpa [Outcome.isStuck] using hst, hal⟩

theorem subAttempt_eff (w : World) (k : Nat) (subs : List Subscription)
    (hk : k + 1 = w.conns.length) :
    MiscEff w k (subAttempt w k subs).1 (subAttempt w k subs).2 := by
  rw [subAttempt_unfold]
  exact misc_eff_aux w k _ hk (fun _ => rfl) (fun b => ⟨rfl, rfl, rfl, rfl, fun _ _ => Iff.rfl⟩)
    (fun w1 s => subFinish w1 s subs) (.sub subs) (by simp) (.reSub subs) ⟨rfl, rfl⟩
    (fun w1 s => by cases s <;> rfl)

theorem unsubAttempt_eff (w : World) (k : Nat) (ts : List Bytes)
    (hk : k + 1 = w.conns.length) :
    MiscEff w k (unsubAttempt w k ts).1 (unsubAttempt w k ts).2 := by
  rw [unsubAttempt_unfold]
  exact misc_eff_aux w k _ hk (fun _ => rfl) (fun b => ⟨rfl, rfl, rfl, rfl, fun _ _ => Iff.rfl⟩)
    (fun w1 s => unsubFinish w1 s ts) (.unsub ts) (by simp) (.reUnsub ts) ⟨rfl, rfl⟩
    (fun w1 s => by cases s <;> rfl)

/-! ### changes that no message can see -/

structure EnvSame (w w' : World) : Prop where
  pid : w'.pid = w.pid
  msgs : ∀ m, msgPkts w' m = msgPkts w m
  accepted : w'.accepted = w.accepted
  cliLast : (∀ k, w.cli = some k → k + 1 = w.conns.length) →
    (∀ k, w'.cli = some k → k + 1 = w'.conns.length)

theorem EnvSame.rfl' (w : World) : EnvSame w w := ⟨rfl, fun _ => rfl, rfl, id⟩

theorem EnvSame.trans {a b c : World} (h1 : EnvSame a b) (h2 : EnvSame b c) : EnvSame a c :=
  ⟨h2.pid.trans h1.pid, fun m => (h2.msgs m).trans (h1.msgs m), h2.accepted.trans h1.accepted,
    fun h => h2.cliLast (h1.cliLast h)⟩

theorem EnvSame.view {w w' : World} (h : EnvSame w w') (m : Nat) : SameView w w' m :=
  ⟨lookupPid_congr h.pid m, h.msgs m⟩

theorem EnvSame.of_conns {w w' : World} (hp : w'.pid = w.pid) (ha : w'.accepted = w.accepted)
    (hc : w'.cli = w.cli) (hk : w'.conns = w.conns) : EnvSame w w' :=
  ⟨hp, fun m => msgPkts_of_pkts_eq (allPkts_congr hk) m, ha, fun h k hk' => by
    rw [hk]; exact h k (hc ▸ hk')⟩

theorem EnvSame.of_pkts {w w' : World} (hp : w'.pid = w.pid) (ha : w'.accepted = w.accepted)
    (hc : w'.cli = w.cli) (hl : w'.conns.length = w.conns.length)
    (hk : allPkts w' = allPkts w) : EnvSame w w' :=
  ⟨hp, fun m => msgPkts_of_pkts_eq hk m, ha, fun h k hk' => by
    rw [hl]; exact h k (hc ▸ hk')⟩

theorem PInv.env {w w' : World} {fr : List (Nat × Nat)} {es : List Entry}
    (hI : PInv w fr es) (h : EnvSame w w') : PInv w' fr es := by
  have hacc := h.accepted
  have haccm : accMsgs w' = accMsgs w := by unfold accMsgs; rw [hacc]
  have hv := h.view
  refine ⟨h.cliLast hI.cliLast, ?_, hI.nodup, ?_, ?_, ?_, ?_, ?_⟩
  · intro m; rw [(hv m).1, (hv m).2]; exact hI.good m
  · intro mq hmq; rw [(hv mq.1).1, (hv mq.1).2, hacc]; exact hI.fresh mq hmq
  · intro e he
    exact Perm.transfer (by rw [hacc]; exact fun _ h => h) (fun m _ => hv m) (hI.perm e he)
  · rw [haccm]; exact hI.accNodup
  · intro m hm; rw [haccm] at hm; rw [(hv m).1, (hv m).2]; exact hI.unacc m hm
  · intro m pw hpw q hq; rw [hacc]; rw [(hv m).2] at hpw; exact hI.pubAcc m pw hpw q hq

theorem kill_envSame (w : World) (k : Nat) : EnvSame w (kill w k) :=
  EnvSame.of_pkts rfl rfl rfl (kill_len w k) (allPkts_kill w k)

theorem logPkt_envSame (w : World) (k : Nat) (p : Pkt) (x : Wire) (hp : ∀ m, about m p = false) :
    EnvSame w (logPkt w k p x) :=
  ⟨rfl, fun m => allPkts_logPkt_filter _ w k p x (hp m), rfl, fun h k' hk' => by
    rw [logPkt_len]; exact h k' hk'⟩

/-! ### "modifies only" relation of a task -/

structure Mod2 (w w' : World) : Prop where
  eq : w' = { w with conns := w'.conns, faults := w'.faults, broker := w'.broker,
                     stuck := w'.stuck, pid := w'.pid, retryQ := w'.retryQ,
                     onErrors := w'.onErrors, closeAfterTask := w'.closeAfterTask,
                     totalRetries := w'.totalRetries, subEst := w'.subEst }
  len : w'.conns.length = w.conns.length

theorem Mod2.refl (w : World) : Mod2 w w := ⟨by cases w; rfl, rfl⟩

theorem Mod2.trans {a b c : World} (h1 : Mod2 a b) (h2 : Mod2 b c) : Mod2 a c := by
  refine ⟨?_, h2.len.trans h1.len⟩
  have e1 := h1.eq
  have e2 := h2.eq
  cases a; cases b; cases c
  simp only [World.mk.injEq] at *
  simp_all

theorem Mod.mod2 {w w' : World} (h : Mod w w') : Mod2 w w' := by
  refine ⟨?_, h.len⟩
  have e1 := h.eq
  cases w; cases w'
  simp only [World.mk.injEq] at *
  simp_all

section
variable {w w' : World} (h : Mod2 w w')
include h
theorem Mod2.cfg : w'.cfg = w.cfg := by have := congrArg World.cfg h.eq; exact this
theorem Mod2.taskQ : w'.taskQ = w.taskQ := by have := congrArg World.taskQ h.eq; exact this
theorem Mod2.cli : w'.cli = w.cli := by have := congrArg World.cli h.eq; exact this
theorem Mod2.accepted : w'.accepted = w.accepted := by
  have := congrArg World.accepted h.eq; exact this
theorem Mod2.initialized : w'.initialized = w.initialized := by
  have := congrArg World.initialized h.eq; exact this
theorem Mod2.connReady : w'.connReady = w.connReady := by
  have := congrArg World.connReady h.eq; exact this
theorem Mod2.goroutine : w'.goroutine = w.goroutine := by
  have := congrArg World.goroutine h.eq; exact this
theorem Mod2.gConnected : w'.gConnected = w.gConnected := by
  have := congrArg World.gConnected h.eq; exact this
theorem Mod2.stopped : w'.stopped = w.stopped := by have := congrArg World.stopped h.eq; exact this
theorem Mod2.phase : w'.phase = w.phase := by have := congrArg World.phase h.eq; exact this
theorem Mod2.totalTasks : w'.totalTasks = w.totalTasks := by
  have := congrArg World.totalTasks h.eq; exact this
end

/-! ### list bookkeeping for `PInv` -/

theorem PInv.sublist {w : World} {fr fr' : List (Nat × Nat)} {es es' : List Entry}
    (hI : PInv w fr es) (hfr : fr'.Sublist fr) (hes : es'.Sublist es) : PInv w fr' es' :=
  hI.sub hfr.subset hes.subset (((hfr.map _).append (hes.filterMap _)).nodup hI.nodup)

theorem PInv.uncons {w : World} {fr : List (Nat × Nat)} {es : List Entry} {e : Entry}
    (hI : PInv w fr (e :: es)) :
    PInv w fr es ∧ Perm w e ∧ ∀ m, e.msg = some m → m ∉ owners fr es := by
  refine ⟨hI.sublist (List.Sublist.refl _) (List.sublist_cons_self _ _),
    hI.perm e (List.mem_cons_self ..), ?_⟩
  intro m hm
  have hnd := hI.nodup
  rw [List.filterMap_cons, hm] at hnd
  have := (List.perm_middle.nodup_iff).1 hnd
  exact (List.nodup_cons.1 this).1

theorem PInv.unconsFr {w : World} {fr : List (Nat × Nat)} {es : List Entry} {mq : Nat × Nat}
    (hI : PInv w (mq :: fr) es) :
    PInv w fr es ∧ Req.pub mq.1 mq.2 ∈ w.accepted ∧ Fresh (lookupPid w mq.1) (msgPkts w mq.1) ∧
      mq.1 ∉ owners fr es := by
  refine ⟨hI.sublist (List.sublist_cons_self _ _) (List.Sublist.refl _),
    (hI.fresh mq (List.mem_cons_self ..)).1, (hI.fresh mq (List.mem_cons_self ..)).2, ?_⟩
  have hnd := hI.nodup
  simp only [List.map_cons, List.cons_append] at hnd
  exact (List.nodup_cons.1 hnd).1

theorem Perm.of_msg_none (w : World) {h : Entry} (hm : h.msg = none) : Perm w h := by
  cases h <;> simp [Entry.msg] at hm <;> trivial

theorem PInv.consMisc {w : World} {fr : List (Nat × Nat)} {es : List Entry} {h : Entry}
    (hI : PInv w fr es) (hm : h.msg = none) : PInv w fr (h :: es) :=
  hI.cons (Perm.of_msg_none w hm) (fun m hm' => by rw [hm] at hm'; cases hm')

theorem PInv.owners_acc {w : World} {fr : List (Nat × Nat)} {es : List Entry}
    (hI : PInv w fr es) {m : Nat} (hm : m ∈ owners fr es) : m ∈ accMsgs w := by
  unfold owners at hm
  rcases List.mem_append.1 hm with h | h
  · obtain ⟨mq, hmq, rfl⟩ := List.mem_map.1 h
    exact mem_accMsgs.2 ⟨_, (hI.fresh mq hmq).1⟩
  · obtain ⟨e, he, hem⟩ := List.mem_filterMap.1 h
    have hp := hI.perm e he
    cases e <;> simp [Entry.msg] at hem <;> subst hem
    · exact mem_accMsgs.2 ⟨_, hp.2.1⟩
    · exact mem_accMsgs.2 ⟨_, hp.1⟩
    · exact mem_accMsgs.2 ⟨_, hp.2.1⟩

/-! ### first-transmission closures -/

theorem absorb_mod2 (w : World) (o : Outcome) : Mod2 w (absorb w o) := by
  cases o with
  | done => exact Mod2.refl w
  | stuck => exact Mod2.refl w
  | fail h e =>
    cases h with
    | none => exact Mod2.refl w
    | some h => exact ⟨rfl, rfl⟩

theorem absorb_retryQ (w : World) (o : Outcome) :
    (absorb w o).retryQ = w.retryQ ++ o.handle.toList := by
  cases o with
  | done => simp [absorb, Outcome.handle]
  | stuck => simp [absorb, Outcome.handle]
  | fail h e => cases h <;> simp [absorb, Outcome.handle]

theorem absorb_cat (w : World) (o : Outcome) :
    (absorb w o).closeAfterTask = (w.closeAfterTask || o.handle.isSome) := by
  cases o with
  | done => simp [absorb, Outcome.handle]
  | stuck => simp [absorb, Outcome.handle]
  | fail h e => cases h <;> simp [absorb, Outcome.handle]

theorem absorb_core (w : World) (o : Outcome) :
    (absorb w o).pid = w.pid ∧ (absorb w o).conns = w.conns ∧ (absorb w o).broker = w.broker ∧
      (absorb w o).stuck = w.stuck := by
  cases o with
  | done => exact ⟨rfl, rfl, rfl, rfl⟩
  | stuck => exact ⟨rfl, rfl, rfl, rfl⟩
  | fail h e => cases h <;> exact ⟨rfl, rfl, rfl, rfl⟩

theorem absorb_envSame (w : World) (o : Outcome) : EnvSame w (absorb w o) :=
  EnvSame.of_conns (absorb_core w o).1 (absorb_mod2 w o).accepted (absorb_mod2 w o).cli
    (absorb_core w o).2.1

theorem perm_rot {α : Type} (a l ex : List α) : (a ++ l ++ ex).Perm (l ++ (a ++ ex)) := by
  rw [← List.append_assoc l a ex]
  exact List.perm_append_comm.append_right ex

theorem firstPub_inv {w : World} {fr : List (Nat × Nat)} {es : List Entry} {k m q : Nat}
    (hI : PInv w fr es) (hk : w.cli = some k) (hne : m ∉ owners fr es)
    (hacc : Req.pub m q ∈ w.accepted) (hf : Fresh (lookupPid w m) (msgPkts w m)) :
    Mod2 w (firstPub w k m q) ∧ ∃ hd : Option Entry,
      (firstPub w k m q).retryQ = w.retryQ ++ hd.toList ∧
      PInv (firstPub w k m q) fr (hd.toList ++ es) := by
  have h := pubAttempt_inv (d := false) hI hk hne hacc (Or.inl ⟨rfl, hf⟩)
  show Mod2 w (absorb (pubAttempt w k m q false).1 (pubAttempt w k m q false).2) ∧ _
  refine ⟨h.1.mod2.trans (absorb_mod2 _ _), (pubAttempt w k m q false).2.handle, ?_, ?_⟩
  · show (absorb (pubAttempt w k m q false).1 (pubAttempt w k m q false).2).retryQ = _
    rw [absorb_retryQ, h.1.retryQ]
  · exact h.2.1.env (absorb_envSame _ _)

theorem misc_first {w w1 : World} {o : Outcome} {k : Nat} {fr : List (Nat × Nat)}
    {es : List Entry} (he : MiscEff w k w1 o) (hI : PInv w fr es) :
    Mod2 w (absorb w1 o) ∧ ∃ hd : Option Entry,
      (absorb w1 o).retryQ = w.retryQ ++ hd.toList ∧ PInv (absorb w1 o) fr (hd.toList ++ es) := by
  refine ⟨he.mod.mod2.trans (absorb_mod2 _ _), o.handle, ?_, ?_⟩
  · rw [absorb_retryQ, he.mod.retryQ]
  · have h1 : PInv w1 fr es := hI.of_mod he.mod he.view
    refine PInv.env ?_ (absorb_envSame _ _)
    cases hh : o.handle with
    | none => simpa using h1
    | some h => simpa using h1.consMisc (he.handle h hh).1

theorem firstSub_inv {w : World} {fr : List (Nat × Nat)} {es : List Entry} {k : Nat}
    (subs : List Subscription) (hI : PInv w fr es) (hk : w.cli = some k) :
    Mod2 w (firstSub w k subs) ∧ ∃ hd : Option Entry,
      (firstSub w k subs).retryQ = w.retryQ ++ hd.toList ∧
      PInv (firstSub w k subs) fr (hd.toList ++ es) :=
  misc_first (subAttempt_eff w k subs (hI.cliLast k hk)) hI

theorem firstUnsub_inv {w : World} {fr : List (Nat × Nat)} {es : List Entry} {k : Nat}
    (ts : List Bytes) (hI : PInv w fr es) (hk : w.cli = some k) :
    Mod2 w (firstUnsub w k ts) ∧ ∃ hd : Option Entry,
      (firstUnsub w k ts).retryQ = w.retryQ ++ hd.toList ∧
      PInv (firstUnsub w k ts) fr (hd.toList ++ es) :=
  misc_first (unsubAttempt_eff w k ts (hI.cliLast k hk)) hI

/-- from "appends `l` to the queue" to the queue-shaped invariant -/
theorem PInv.requeue {w w' : World} {fr : List (Nat × Nat)} {l ex : List Entry}
    (hq : w'.retryQ = w.retryQ ++ l) (hI : PInv w' fr (l ++ (w.retryQ ++ ex))) :
    PInv w' fr (w'.retryQ ++ ex) := by
  rw [hq]; exact hI.perm' (List.Perm.refl _) (perm_rot _ _ _)

theorem subscribeTask_inv {w : World} {fr : List (Nat × Nat)} {ex : List Entry} {k : Nat}
    (subs : List Subscription) (hI : PInv w fr (w.retryQ ++ ex)) (hk : w.cli = some k) :
    Mod2 w (subscribeTask w k subs) ∧
      PInv (subscribeTask w k subs) fr ((subscribeTask w k subs).retryQ ++ ex) := by
  unfold subscribeTask
  have hm0 : Mod2 w { w with subEst := applySubs w.subEst subs } := ⟨rfl, rfl⟩
  have hI0 : PInv { w with subEst := applySubs w.subEst subs } fr (w.retryQ ++ ex) :=
    hI.env (EnvSame.of_conns rfl rfl rfl rfl)
  simp only
  split
  · obtain ⟨h1, hd, h2, h3⟩ := firstSub_inv (k := k) subs hI0 hk
    exact ⟨hm0.trans h1, PInv.requeue h2 h3⟩
  · refine ⟨⟨rfl, rfl⟩, ?_⟩
    have : PInv { w with subEst := applySubs w.subEst subs } fr
        ([Entry.qSub subs] ++ (w.retryQ ++ ex)) := hI0.consMisc rfl
    exact PInv.requeue (w := { w with subEst := applySubs w.subEst subs })
      (w' := { w with subEst := applySubs w.subEst subs,
                      retryQ := w.retryQ ++ [Entry.qSub subs] }) rfl
      (this.env (EnvSame.of_conns rfl rfl rfl rfl))

theorem resubLoop_inv {fr : List (Nat × Nat)} {ex : List Entry} {k : Nat}
    (l : List Subscription) : ∀ (w : World), PInv w fr (w.retryQ ++ ex) → w.cli = some k →
    Mod2 w (resubLoop w k l) ∧ PInv (resubLoop w k l) fr ((resubLoop w k l).retryQ ++ ex) := by
  induction l with
  | nil => intro w hI _; exact ⟨Mod2.refl w, hI⟩
  | cons s rest ih =>
    intro w hI hk
    unfold resubLoop
    split
    · exact ⟨Mod2.refl w, hI⟩
    · obtain ⟨h1, h2⟩ := subscribeTask_inv (k := k) [s] hI hk
      obtain ⟨h3, h4⟩ := ih _ h2 (h1.cli ▸ hk)
      exact ⟨h1.trans h3, h4⟩

/-! ### the retry queue -/

theorem runEntry_inv {w : World} {fr : List (Nat × Nat)} {es : List Entry} {k : Nat} {e : Entry}
    (hI : PInv w fr (e :: es)) (hk : w.cli = some k) :
    Mod2 w (runEntry w k e).1 ∧ ∃ hd : List Entry,
      (runEntry w k e).1.retryQ = w.retryQ ++ hd ∧
      PInv (runEntry w k e).1 fr (hd ++ (runEntry w k e).2.handle.toList ++ es) := by
  obtain ⟨hI', hp, hne⟩ := hI.uncons
  cases e with
  | rePublish m q =>
    obtain ⟨hq, hacc, hpd⟩ := hp
    have h := pubAttempt_inv (d := true) hI' hk (hne m rfl) hacc (Or.inr ⟨rfl, hq, hpd⟩)
    exact ⟨h.1.mod2, [], by simp [runEntry, h.1.retryQ], by simpa [runEntry] using h.2.1⟩
  | rePubRel m =>
    obtain ⟨hacc, i, ho⟩ := hp
    have hi : (lookupPid w m).getD 0 = i := by rw [ho.1]; rfl
    have h := relAttempt_inv (k := k) hI' hk (hne m rfl) hacc ho
    simp only [runEntry, hi]
    exact ⟨h.1.mod2, [], by simp [h.1.retryQ], by simpa using h.2.1⟩
  | reSub subs =>
    have he := subAttempt_eff w k subs (hI.cliLast k hk)
    have h1 : PInv (subAttempt w k subs).1 fr es := hI'.of_mod he.mod he.view
    refine ⟨he.mod.mod2, [], by simp [runEntry, he.mod.retryQ], ?_⟩
    simp only [runEntry, List.nil_append]
    cases hh : (subAttempt w k subs).2.handle with
    | none => simpa using h1
    | some h => simpa using h1.consMisc (he.handle h hh).1
  | reUnsub ts =>
    have he := unsubAttempt_eff w k ts (hI.cliLast k hk)
    have h1 : PInv (unsubAttempt w k ts).1 fr es := hI'.of_mod he.mod he.view
    refine ⟨he.mod.mod2, [], by simp [runEntry, he.mod.retryQ], ?_⟩
    simp only [runEntry, List.nil_append]
    cases hh : (unsubAttempt w k ts).2.handle with
    | none => simpa using h1
    | some h => simpa using h1.consMisc (he.handle h hh).1
  | qPub m q =>
    obtain ⟨_, hacc, hf⟩ := hp
    obtain ⟨h1, hd, h2, h3⟩ := firstPub_inv (k := k) hI' hk (hne m rfl) hacc hf
    exact ⟨h1, hd.toList, h2, by simpa [runEntry, Outcome.handle] using h3⟩
  | qSub subs =>
    obtain ⟨h1, hd, h2, h3⟩ := firstSub_inv (k := k) subs hI' hk
    exact ⟨h1, hd.toList, h2, by simpa [runEntry, Outcome.handle] using h3⟩
  | qUnsub ts =>
    obtain ⟨h1, hd, h2, h3⟩ := firstUnsub_inv (k := k) ts hI' hk
    exact ⟨h1, hd.toList, h2, by simpa [runEntry, Outcome.handle] using h3⟩

def retryAfter (w : World) (o : Outcome) (k : Nat) (rest : List Entry) : World :=
  match o with
  | .fail (some h) err =>
    { w with onErrors := w.onErrors ++ [err], retryQ := w.retryQ ++ [h] ++ rest,
             closeAfterTask := true }
  | .stuck => w
  | _ => if w.closeAfterTask then { w with retryQ := w.retryQ ++ rest } else retryLoop w k rest

theorem retryLoop_cons (w : World) (k : Nat) (e : Entry) (rest : List Entry) :
    retryLoop w k (e :: rest) =
      if w.stuck then w
      else retryAfter (runEntry { w with totalRetries := w.totalRetries + 1 } k e).1
        (runEntry { w with totalRetries := w.totalRetries + 1 } k e).2 k rest := by
  rw [retryLoop]
  split
  · rfl
  · simp only [retryAfter]
    split <;> simp_all

theorem retryLoop_inv {fr : List (Nat × Nat)} {k : Nat} (rest : List Entry) :
    ∀ (w : World), PInv w fr (w.retryQ ++ rest) → w.cli = some k →
    Mod2 w (retryLoop w k rest) ∧ PInv (retryLoop w k rest) fr (retryLoop w k rest).retryQ := by
  induction rest with
  | nil => intro w hI _; exact ⟨Mod2.refl w, by simpa [retryLoop] using hI⟩
  | cons e rest ih =>
    intro w hI hk
    rw [retryLoop_cons]
    split
    · exact ⟨Mod2.refl w, hI.sublist (List.Sublist.refl _) (List.sublist_append_left _ _)⟩
    · have hm0 : Mod2 w { w with totalRetries := w.totalRetries + 1 } := ⟨rfl, rfl⟩
      have hI0 : PInv { w with totalRetries := w.totalRetries + 1 } fr
          (e :: (w.retryQ ++ rest)) :=
        (hI.env (w' := { w with totalRetries := w.totalRetries + 1 })
          (EnvSame.of_conns rfl rfl rfl rfl)).perm' (List.Perm.refl _) List.perm_middle.symm
      obtain ⟨h1, hd, h2, h3⟩ := runEntry_inv (k := k) hI0 hk
      generalize runEntry { w with totalRetries := w.totalRetries + 1 } k e = r at h1 h2 h3 ⊢
      obtain ⟨w1, o⟩ := r
      simp only at h1 h2 h3 ⊢
      have hm1 : Mod2 w w1 := hm0.trans h1
      have h2' : w1.retryQ = w.retryQ ++ hd := h2
      have hk1 : w1.cli = some k := hm1.cli ▸ hk
      -- the queue-shaped invariant after the entry, handle not yet re-queued
      have hnone : o.handle = none → PInv w1 fr (w1.retryQ ++ rest) := by
        intro hh
        rw [hh] at h3
        have h3' : PInv w1 fr (hd ++ (w.retryQ ++ rest)) := by simpa using h3
        rw [h2']
        exact h3'.perm' (List.Perm.refl _) (perm_rot _ _ _)
      have hcont : o.handle = none →
          Mod2 w (if w1.closeAfterTask = true then { w1 with retryQ := w1.retryQ ++ rest }
            else retryLoop w1 k rest) ∧
          PInv (if w1.closeAfterTask = true then { w1 with retryQ := w1.retryQ ++ rest }
            else retryLoop w1 k rest) fr
            (if w1.closeAfterTask = true then { w1 with retryQ := w1.retryQ ++ rest }
            else retryLoop w1 k rest).retryQ := by
        intro hh
        have hq := hnone hh
        split
        · exact ⟨hm1.trans ⟨rfl, rfl⟩,
            hq.env (w' := { w1 with retryQ := w1.retryQ ++ rest })
              (EnvSame.of_conns rfl rfl rfl rfl)⟩
        · obtain ⟨h4, h5⟩ := ih w1 hq hk1
          exact ⟨hm1.trans h4, h5⟩
      cases o with
      | done => exact hcont rfl
      | stuck =>
        exact ⟨hm1, (hnone rfl).sublist (List.Sublist.refl _) (List.sublist_append_left _ _)⟩
      | fail h err =>
        cases h with
        | none => exact hcont rfl
        | some h =>
          refine ⟨hm1.trans ⟨rfl, rfl⟩, ?_⟩
          have h3' : PInv w1 fr (hd ++ [h] ++ (w.retryQ ++ rest)) := by
            simpa [Outcome.handle] using h3
          have : PInv w1 fr (w1.retryQ ++ [h] ++ rest) := by
            rw [h2']
            refine h3'.perm' (List.Perm.refl _) ?_
            have := perm_rot w.retryQ (hd ++ [h]) rest
            simpa [List.append_assoc] using this
          have hE : EnvSame w1 (retryAfter w1 (.fail (some h) err) k rest) :=
            EnvSame.of_conns rfl rfl rfl rfl
          exact this.env hE

/-! ### tasks -/

theorem runTask_inv {w : World} {fr : List (Nat × Nat)} {k : Nat} (t : Task)
    (hI : PInv w (t.msg.toList ++ fr) w.retryQ) (hk : w.cli = some k) :
    Mod2 w (runTask w k t) ∧ PInv (runTask w k t) fr (runTask w k t).retryQ := by
  cases t with
  | req r =>
    cases r with
    | pub m q =>
      have hI' : PInv w ((m, q) :: fr) w.retryQ := hI
      obtain ⟨h0, hacc, hf, hne⟩ := hI'.unconsFr
      simp only [runTask]
      split
      · obtain ⟨h1, hd, h2, h3⟩ := firstPub_inv (k := k) h0 hk hne hacc hf
        refine ⟨h1, ?_⟩
        have := PInv.requeue (ex := []) h2 (by simpa using h3)
        simpa using this
      · split
        · refine ⟨⟨rfl, rfl⟩, ?_⟩
          have hq : q ≠ 0 := by omega
          have h1 : PInv w fr ([Entry.qPub m q] ++ (w.retryQ ++ [])) := by
            simpa using h0.cons (h := Entry.qPub m q) ⟨hq, hacc, hf⟩
              (fun m' hm' => by simp [Entry.msg] at hm'; subst hm'; exact hne)
          have hE : EnvSame w { w with retryQ := w.retryQ ++ [Entry.qPub m q] } :=
            EnvSame.of_conns rfl rfl rfl rfl
          have := PInv.requeue (w := w) (ex := []) rfl (h1.env hE)
          simpa using this
        · exact ⟨Mod2.refl w, h0⟩
    | sub subs =>
      have hI' : PInv w fr (w.retryQ ++ []) := by simpa [Task.msg] using hI
      have := subscribeTask_inv (k := k) subs hI' hk
      simpa [runTask] using this
    | unsub ts =>
      have hI' : PInv w fr (w.retryQ ++ []) := by simpa [Task.msg] using hI
      simp only [runTask]
      have hm0 : Mod2 w { w with subEst := applyUnsubs w.subEst ts } := ⟨rfl, rfl⟩
      have hE0 : EnvSame w { w with subEst := applyUnsubs w.subEst ts } :=
        EnvSame.of_conns rfl rfl rfl rfl
      have hI0 := hI'.env hE0
      split
      · obtain ⟨h1, hd, h2, h3⟩ := firstUnsub_inv (k := k) ts hI0 hk
        refine ⟨hm0.trans h1, ?_⟩
        have := PInv.requeue h2 h3
        simpa using this
      · refine ⟨⟨rfl, rfl⟩, ?_⟩
        have h1 : PInv { w with subEst := applyUnsubs w.subEst ts } fr
            ([Entry.qUnsub ts] ++ (w.retryQ ++ [])) := hI0.consMisc rfl
        have hE : EnvSame { w with subEst := applyUnsubs w.subEst ts }
            { w with subEst := applyUnsubs w.subEst ts,
                     retryQ := w.retryQ ++ [Entry.qUnsub ts] } :=
          EnvSame.of_conns rfl rfl rfl rfl
        have := PInv.requeue (w := { w with subEst := applyUnsubs w.subEst ts }) (ex := []) rfl
          (h1.env hE)
        simpa using this
  | resubscribe =>
    have hI' : PInv w fr (w.retryQ ++ []) := by simpa [Task.msg] using hI
    simp only [runTask]
    have hm0 : Mod2 w { w with subEst := [] } := ⟨rfl, rfl⟩
    have hE0 : EnvSame w { w with subEst := [] } := EnvSame.of_conns rfl rfl rfl rfl
    obtain ⟨h1, h2⟩ := resubLoop_inv (k := k) (ex := []) w.subEst { w with subEst := [] } (hI'.env hE0) hk
    exact ⟨hm0.trans h1, by simpa using h2⟩
  | retry =>
    have hI' : PInv w fr w.retryQ := by simpa [Task.msg] using hI
    simp only [runTask]
    have hm0 : Mod2 w { w with retryQ := [] } := ⟨rfl, rfl⟩
    have hE0 : EnvSame w { w with retryQ := [] } := EnvSame.of_conns rfl rfl rfl rfl
    have hI0 : PInv { w with retryQ := [] } fr
        (({ w with retryQ := [] } : World).retryQ ++ w.retryQ) := by
      simpa using hI'.env hE0
    obtain ⟨h1, h2⟩ := retryLoop_inv (k := k) w.retryQ { w with retryQ := [] } hI0 hk
    exact ⟨hm0.trans h1, h2⟩
  | disconnect =>
    have hI' : PInv w fr w.retryQ := by simpa [Task.msg] using hI
    simp only [runTask]
    split
    · refine ⟨((logPkt_mod w k _ _).trans (kill_mod _ k)).mod2, ?_⟩
      exact (hI'.env (logPkt_envSame w k .disconnect _ (fun _ => rfl))).env (kill_envSame _ k)
    · exact ⟨(logPkt_mod w k _ _).mod2, hI'.env (logPkt_envSame w k .disconnect _ (fun _ => rfl))⟩

/-! ### the task goroutine -/

def afterTask (w : World) (k : Nat) : World :=
  if w.closeAfterTask then { kill w k with gConnected := false, closeAfterTask := false } else w

def popTask (w : World) (rest : List Task) : World :=
  { w with gConnected := true, taskQ := rest, totalTasks := w.totalTasks + 1 }

theorem runTasks_succ (fuel : Nat) (w : World) :
    runTasks (fuel + 1) w =
      if ¬ w.goroutine ∨ w.stuck then w
      else if ¬ w.gConnected ∧ ¬ w.connReady then w
      else match w.taskQ, w.cli with
        | [], _ => { w with gConnected := true }
        | _ :: _, none => { w with gConnected := true }
        | t :: rest, some k =>
          if (runTask (popTask w rest) k t).stuck then runTask (popTask w rest) k t
          else runTasks fuel (afterTask (runTask (popTask w rest) k t) k) := by
  rcases w with ⟨cfg, taskQ, retryQ, subEst, cat, cli, cr, gor, gc, stp, stk, hdl, tt, tr, oe, pid,
    acc, rej, conns, ph, ini, we, wts, dls, cret, br, fl, hd⟩
  rw [runTasks]
  cases taskQ with
  | nil => rfl
  | cons t rest =>
    cases cli with
    | none => rfl
    | some k => rfl

def taskMsgs (tq : List Task) : List (Nat × Nat) := tq.filterMap Task.msg

theorem taskMsgs_cons (t : Task) (rest : List Task) :
    taskMsgs (t :: rest) = t.msg.toList ++ taskMsgs rest := by
  unfold taskMsgs
  cases h : t.msg <;> simp [h]

theorem taskMsgs_append (a b : List Task) : taskMsgs (a ++ b) = taskMsgs a ++ taskMsgs b := by
  unfold taskMsgs; simp

/-- the phase invariant of a world between two tasks -/
def Inv12 (w : World) : Prop := PInv w (taskMsgs w.taskQ) w.retryQ

theorem Inv12.env {w w' : World} (hI : Inv12 w) (h : EnvSame w w') (ht : w'.taskQ = w.taskQ)
    (hr : w'.retryQ = w.retryQ) : Inv12 w' := by
  unfold Inv12; rw [ht, hr]; exact PInv.env hI h

theorem afterTask_envSame (w : World) (k : Nat) : EnvSame w (afterTask w k) := by
  unfold afterTask
  split
  · exact (kill_envSame w k).trans (EnvSame.of_conns rfl rfl rfl rfl)
  · exact EnvSame.rfl' w

theorem afterTask_queues (w : World) (k : Nat) :
    (afterTask w k).taskQ = w.taskQ ∧ (afterTask w k).retryQ = w.retryQ := by
  unfold afterTask; split <;> exact ⟨rfl, rfl⟩

/-- what the task goroutine may modify -/
structure Mod3 (w w' : World) : Prop where
  eq : w' = { w with conns := w'.conns, faults := w'.faults, broker := w'.broker,
                     stuck := w'.stuck, pid := w'.pid, retryQ := w'.retryQ,
                     onErrors := w'.onErrors, closeAfterTask := w'.closeAfterTask,
                     totalRetries := w'.totalRetries, subEst := w'.subEst,
                     taskQ := w'.taskQ, totalTasks := w'.totalTasks, gConnected := w'.gConnected }
  len : w'.conns.length = w.conns.length

theorem Mod3.refl (w : World) : Mod3 w w := ⟨by cases w; rfl, rfl⟩

theorem Mod3.trans {a b c : World} (h1 : Mod3 a b) (h2 : Mod3 b c) : Mod3 a c := by
  refine ⟨?_, h2.len.trans h1.len⟩
  have e1 := h1.eq
  have e2 := h2.eq
  cases a; cases b; cases c
  simp only [World.mk.injEq] at *
  simp_all

theorem Mod2.mod3 {w w' : World} (h : Mod2 w w') : Mod3 w w' := by
  refine ⟨?_, h.len⟩
  have e1 := h.eq
  cases w; cases w'
  simp only [World.mk.injEq] at *
  simp_all

section
variable {w w' : World} (h : Mod3 w w')
include h
theorem Mod3.cfg : w'.cfg = w.cfg := by have := congrArg World.cfg h.eq; exact this
theorem Mod3.cli : w'.cli = w.cli := by have := congrArg World.cli h.eq; exact this
theorem Mod3.accepted : w'.accepted = w.accepted := by
  have := congrArg World.accepted h.eq; exact this
theorem Mod3.initialized : w'.initialized = w.initialized := by
  have := congrArg World.initialized h.eq; exact this
theorem Mod3.connReady : w'.connReady = w.connReady := by
  have := congrArg World.connReady h.eq; exact this
theorem Mod3.goroutine : w'.goroutine = w.goroutine := by
  have := congrArg World.goroutine h.eq; exact this
theorem Mod3.stopped : w'.stopped = w.stopped := by have := congrArg World.stopped h.eq; exact this
theorem Mod3.phase : w'.phase = w.phase := by have := congrArg World.phase h.eq; exact this
end

theorem afterTask_mod3 (w : World) (k : Nat) : Mod3 w (afterTask w k) := by
  unfold afterTask
  split
  · exact ⟨rfl, by simp⟩
  · exact Mod3.refl w

theorem runTasks_inv (fuel : Nat) :
    ∀ w : World, Inv12 w → Inv12 (runTasks fuel w) ∧ Mod3 w (runTasks fuel w) := by
  induction fuel with
  | zero => intro w hI; exact ⟨hI, Mod3.refl w⟩
  | succ fuel ih =>
    intro w hI
    rw [runTasks_succ]
    split
    · exact ⟨hI, Mod3.refl w⟩
    · split
      · exact ⟨hI, Mod3.refl w⟩
      · split
        · exact ⟨hI.env (EnvSame.of_conns rfl rfl rfl rfl) rfl rfl, ⟨rfl, rfl⟩⟩
        · exact ⟨hI.env (EnvSame.of_conns rfl rfl rfl rfl) rfl rfl, ⟨rfl, rfl⟩⟩
        · rename_i t rest k ht hk
          have hI0 : PInv (popTask w rest) (t.msg.toList ++ taskMsgs rest) (popTask w rest).retryQ := by
            have : PInv w (t.msg.toList ++ taskMsgs rest) w.retryQ := by
              have := hI; unfold Inv12 at this; rwa [ht, taskMsgs_cons] at this
            exact this.env (w' := popTask w rest) (EnvSame.of_conns rfl rfl rfl rfl)
          obtain ⟨h1, h2⟩ := runTask_inv (k := k) t hI0 (hk : (popTask w rest).cli = some k)
          have h3 : Inv12 (runTask (popTask w rest) k t) := by
            unfold Inv12; rw [h1.taskQ]; exact h2
          have hm : Mod3 w (runTask (popTask w rest) k t) :=
            Mod3.trans (b := popTask w rest) ⟨rfl, rfl⟩ h1.mod3
          split
          · exact ⟨h3, hm⟩
          · obtain ⟨h4, h5⟩ := ih _
              (h3.env (afterTask_envSame _ k) (afterTask_queues _ k).1 (afterTask_queues _ k).2)
            exact ⟨h4, (hm.trans (afterTask_mod3 _ k)).trans h5⟩

theorem loopReact_envSame (w : World) : EnvSame w (loopReact w) := by
  unfold loopReact
  split
  · split
    · exact EnvSame.rfl' w
    · split <;> exact EnvSame.of_conns rfl rfl rfl rfl
  · exact EnvSame.rfl' w

/-- what `progress` leaves alone -/
structure ProgSame (w w' : World) : Prop where
  cfg : w'.cfg = w.cfg
  cli : w'.cli = w.cli
  accepted : w'.accepted = w.accepted
  initialized : w'.initialized = w.initialized
  stopped : w'.stopped = w.stopped
  connReady : w'.connReady = w.connReady
  goroutine : w'.goroutine = w.goroutine
  len : w'.conns.length = w.conns.length

theorem loopReact_same (w : World) :
    (loopReact w).taskQ = w.taskQ ∧ (loopReact w).retryQ = w.retryQ ∧
      ProgSame w (loopReact w) := by
  unfold loopReact
  split
  · split
    · exact ⟨rfl, rfl, ⟨rfl, rfl, rfl, rfl, rfl, rfl, rfl, rfl⟩⟩
    · split <;> exact ⟨rfl, rfl, ⟨rfl, rfl, rfl, rfl, rfl, rfl, rfl, rfl⟩⟩
  · exact ⟨rfl, rfl, ⟨rfl, rfl, rfl, rfl, rfl, rfl, rfl, rfl⟩⟩

theorem progress_inv {w : World} (hI : Inv12 w) : Inv12 (progress w) ∧ ProgSame w (progress w) := by
  unfold progress
  obtain ⟨h1, h2⟩ := runTasks_inv (w.taskQ.length + 1) w hI
  obtain ⟨h3, h4, h5⟩ := loopReact_same (runTasks (w.taskQ.length + 1) w)
  refine ⟨h1.env (loopReact_envSame _) h3 h4, ?_⟩
  exact ⟨h5.cfg.trans h2.cfg, h5.cli.trans h2.cli, h5.accepted.trans h2.accepted,
    h5.initialized.trans h2.initialized, h5.stopped.trans h2.stopped,
    h5.connReady.trans h2.connReady, h5.goroutine.trans h2.goroutine, h5.len.trans h2.len⟩

/-! ### environment events -/

def reqMsg : Req → List Nat
  | .pub m _ => [m]
  | _ => []

theorem accMsgs_append (w w' : World) (r : Req) (h : w'.accepted = w.accepted ++ [r]) :
    accMsgs w' = accMsgs w ++ reqMsg r := by
  unfold accMsgs; rw [h, List.filterMap_append]
  cases r <;> simp [reqMsg]

theorem PInv.accept {w w' : World} {fr : List (Nat × Nat)} {es : List Entry} {r : Req}
    (hI : PInv w fr es) (hp : w'.pid = w.pid) (hk : w'.conns = w.conns) (hc : w'.cli = w.cli)
    (ha : w'.accepted = w.accepted ++ [r]) (hnew : ∀ m q, r = .pub m q → m ∉ accMsgs w) :
    PInv w' fr es := by
  have hsub : w.accepted ⊆ w'.accepted := by rw [ha]; exact List.subset_append_left _ _
  have hv : ∀ m, SameView w w' m := sameView_of_eq hp (allPkts_congr hk)
  have haccm := accMsgs_append w w' r ha
  refine ⟨?_, ?_, hI.nodup, ?_, ?_, ?_, ?_, ?_⟩
  · intro k hk'; rw [hk]; exact hI.cliLast k (hc ▸ hk')
  · intro m; rw [(hv m).1, (hv m).2]; exact hI.good m
  · intro mq hmq; rw [(hv mq.1).1, (hv mq.1).2]
    exact ⟨hsub (hI.fresh mq hmq).1, (hI.fresh mq hmq).2⟩
  · intro e he; exact Perm.transfer hsub (fun m _ => hv m) (hI.perm e he)
  · rw [haccm]
    cases r with
    | pub m q =>
      exact (List.perm_append_singleton m _).nodup_iff.2
        (List.nodup_cons.2 ⟨hnew m q rfl, hI.accNodup⟩)
    | sub _ => simpa [reqMsg] using hI.accNodup
    | unsub _ => simpa [reqMsg] using hI.accNodup
  · intro m hm
    rw [(hv m).1, (hv m).2]
    apply hI.unacc m
    intro h; apply hm; rw [haccm]; exact List.mem_append_left _ h
  · intro m pw hpw q hq; rw [(hv m).2] at hpw; exact hsub (hI.pubAcc m pw hpw q hq)

theorem PInv.consFr {w : World} {fr : List (Nat × Nat)} {es : List Entry} {m q : Nat}
    (hI : PInv w fr es) (hacc : Req.pub m q ∈ w.accepted)
    (hf : Fresh (lookupPid w m) (msgPkts w m)) (hne : m ∉ owners fr es) :
    PInv w ((m, q) :: fr) es := by
  refine ⟨hI.cliLast, hI.good, ?_, ?_, hI.perm, hI.accNodup, hI.unacc, hI.pubAcc⟩
  · simp only [List.map_cons, List.cons_append]
    exact List.nodup_cons.2 ⟨hne, hI.nodup⟩
  · intro mq hmq
    rcases List.mem_cons.1 hmq with h | h
    · subst h; exact ⟨hacc, hf⟩
    · exact hI.fresh mq h

theorem accept_inv {w : World} (r : Req) (hI : Inv12 w)
    (hnew : ∀ m q, r = .pub m q → m ∉ accMsgs w) :
    Inv12 (pushTask { w with accepted := w.accepted ++ [r] } (.req r)) := by
  have h1 : PInv (pushTask { w with accepted := w.accepted ++ [r] } (.req r))
      (taskMsgs w.taskQ) w.retryQ := hI.accept rfl rfl rfl rfl hnew
  unfold Inv12
  show PInv _ (taskMsgs (w.taskQ ++ [Task.req r])) w.retryQ
  rw [taskMsgs_append]
  cases r with
  | pub m q =>
    have hm : m ∉ accMsgs w := hnew m q rfl
    have hne : m ∉ owners (taskMsgs w.taskQ) w.retryQ := fun h => hm (hI.owners_acc h)
    have hacc : Req.pub m q ∈
        (pushTask { w with accepted := w.accepted ++ [Req.pub m q] } (.req (.pub m q))).accepted := by
      show Req.pub m q ∈ w.accepted ++ [Req.pub m q]
      simp
    have hf := hI.unacc m hm
    have h2 := h1.consFr hacc hf hne
    exact h2.perm' (List.perm_append_singleton _ _) (List.Perm.refl _)
  | sub _ =>
    show PInv _ (taskMsgs w.taskQ ++ []) w.retryQ
    rw [List.append_nil]; exact h1
  | unsub _ =>
    show PInv _ (taskMsgs w.taskQ ++ []) w.retryQ
    rw [List.append_nil]; exact h1

theorem Inv12.pushMisc {w : World} (hI : Inv12 w) (t : Task) (ht : t.msg = none) :
    Inv12 (pushTask w t) := by
  unfold Inv12
  show PInv _ (taskMsgs (w.taskQ ++ [t])) w.retryQ
  rw [taskMsgs_append]
  have : taskMsgs [t] = [] := by simp [taskMsgs, ht]
  rw [this, List.append_nil]
  exact PInv.env hI (EnvSame.of_conns rfl rfl rfl rfl)

/-- `deliverInbound` touches only the connection log (with an acknowledgement) and `handled` -/
structure ModIn (w w' : World) : Prop where
  eq : w' = { w with conns := w'.conns, handled := w'.handled }
  len : w'.conns.length = w.conns.length
  msgs : ∀ m, msgPkts w' m = msgPkts w m
  alive : ∀ k, (getConn w' k).alive = (getConn w k).alive

theorem ModIn.refl (w : World) : ModIn w w := ⟨by cases w; rfl, rfl, fun _ => rfl, fun _ => rfl⟩

theorem ModIn.trans {a b c : World} (h1 : ModIn a b) (h2 : ModIn b c) : ModIn a c := by
  refine ⟨?_, h2.len.trans h1.len, fun m => (h2.msgs m).trans (h1.msgs m),
    fun k => (h2.alive k).trans (h1.alive k)⟩
  have e1 := h1.eq
  have e2 := h2.eq
  cases a; cases b; cases c
  simp only [World.mk.injEq] at *
  simp_all

theorem getConn_logPkt_alive (w : World) (k k' : Nat) (p : Pkt) (x : Wire) :
    (getConn (logPkt w k p x) k').alive = (getConn w k').alive := by
  unfold logPkt getConn setConn
  simp only [List.getD_eq_getElem?_getD, List.getElem?_set]
  by_cases h : k = k'
  · subst h
    by_cases hk : k < w.conns.length
    · simp [hk]
    · simp [hk]
  · simp [h]

def noteHandled (w : World) (k m : Nat) : World :=
  match (getConn w k).handler with
  | some h => { w with handled := w.handled ++ [(k, h, m)] }
  | none => w

theorem deliverInbound_unfold (w : World) (k m q : Nat) :
    deliverInbound w k m q =
      if ¬ (getConn w k).alive then w
      else if q = 1 then logPkt (noteHandled w k m) k (.puback (m + 1)) (.sent .ok)
      else noteHandled w k m := rfl

theorem noteHandled_modIn (w : World) (k m : Nat) :
    ModIn w (noteHandled w k m) ∧ (noteHandled w k m).conns = w.conns := by
  unfold noteHandled
  split
  · exact ⟨⟨rfl, rfl, fun _ => rfl, fun _ => rfl⟩, rfl⟩
  · exact ⟨ModIn.refl w, rfl⟩

theorem deliverInbound_modIn (w : World) (k m q : Nat) : ModIn w (deliverInbound w k m q) := by
  rw [deliverInbound_unfold]
  split
  · exact ModIn.refl w
  · split
    · refine (noteHandled_modIn w k m).1.trans ⟨rfl, by simp, fun m' => ?_, fun k' => ?_⟩
      · exact allPkts_logPkt_filter _ _ k _ _ rfl
      · exact getConn_logPkt_alive _ k k' _ _
    · exact (noteHandled_modIn w k m).1

theorem inboundFold_modIn (k : Nat) (inb : List (Nat × Nat)) : ∀ w : World,
    ModIn w (inb.foldl (fun w (mq : Nat × Nat) => deliverInbound w k mq.1 mq.2) w) := by
  induction inb with
  | nil => intro w; exact ModIn.refl w
  | cons a t ih =>
    intro w
    simp only [List.foldl_cons]
    exact (deliverInbound_modIn w k a.1 a.2).trans (ih _)

section
variable {w w' : World} (h : ModIn w w')
include h
theorem ModIn.pid : w'.pid = w.pid := by have := congrArg World.pid h.eq; exact this
theorem ModIn.taskQ : w'.taskQ = w.taskQ := by have := congrArg World.taskQ h.eq; exact this
theorem ModIn.retryQ : w'.retryQ = w.retryQ := by have := congrArg World.retryQ h.eq; exact this
theorem ModIn.cli : w'.cli = w.cli := by have := congrArg World.cli h.eq; exact this
theorem ModIn.accepted : w'.accepted = w.accepted := by
  have := congrArg World.accepted h.eq; exact this
theorem ModIn.broker : w'.broker = w.broker := by have := congrArg World.broker h.eq; exact this
theorem ModIn.stuck : w'.stuck = w.stuck := by have := congrArg World.stuck h.eq; exact this
theorem ModIn.initialized : w'.initialized = w.initialized := by
  have := congrArg World.initialized h.eq; exact this
theorem ModIn.cfg : w'.cfg = w.cfg := by have := congrArg World.cfg h.eq; exact this
theorem ModIn.closeAfterTask : w'.closeAfterTask = w.closeAfterTask := by
  have := congrArg World.closeAfterTask h.eq; exact this
theorem ModIn.envSame : EnvSame w w' :=
  ⟨h.pid, h.msgs, h.accepted, fun hc k hk => by rw [h.len]; exact hc k (h.cli ▸ hk)⟩
end

def connackPre (w : World) (k : Nat) (sp : Bool) : World :=
  { setConn w k { getConn w k with connected := true } with
    broker := if sp then w.broker else w.broker.clearSession }

def connackFlags (w : World) (sp : Bool) : World :=
  { w with connReady := true, waitExp := 0,
           connectReturned := if w.connectReturned.isNone then some sp else w.connectReturned }

/-- `pushTask` refuses once Disconnect was called -/
def connackResub (w : World) (sp : Bool) : World :=
  if w.initialized ∧ (¬ sp ∨ w.cfg.always) ∧ ¬ w.stopped then pushTask w .resubscribe else w

def connackRetry (w : World) : World := if w.stopped then w else pushTask w .retry

def connackTasks (w : World) (sp : Bool) : World := connackRetry (connackResub w sp)

def connackUp (w : World) (k : Nat) : World :=
  { w with initialized := true, phase := if w.stopped then .exited else .up k }

def connackPost (w : World) (k : Nat) (sp : Bool) : World :=
  connackUp (connackTasks (connackFlags w sp) sp) k

theorem step_connackOk (w : World) (k : Nat) (sp : Bool) (inb : List (Nat × Nat))
    (h : w.phase = .connackGate k) :
    step w (.connackOk sp inb) =
      progress (connackPost (inb.foldl (fun w (mq : Nat × Nat) => deliverInbound w k mq.1 mq.2)
        (connackPre w k sp)) k sp) := by
  simp only [step, h]
  rfl

theorem step_connackOk_other (w : World) (sp : Bool) (inb : List (Nat × Nat))
    (h : ∀ k, w.phase ≠ .connackGate k) : step w (.connackOk sp inb) = w := by
  simp only [step]

theorem connackPre_envSame (w : World) (k : Nat) (sp : Bool) : EnvSame w (connackPre w k sp) :=
  EnvSame.of_pkts rfl rfl rfl (setConn_len w k _) (allPkts_setConn_same w k _ rfl)

theorem connackPost_inv {w : World} (k : Nat) (sp : Bool) (hI : Inv12 w) :
    Inv12 (connackPost w k sp) := by
  have h1 : Inv12 (connackFlags w sp) := hI.env (EnvSame.of_conns rfl rfl rfl rfl) rfl rfl
  have h2 : Inv12 (connackResub (connackFlags w sp) sp) := by
    unfold connackResub
    split
    · exact h1.pushMisc _ rfl
    · exact h1
  have h3 : Inv12 (connackTasks (connackFlags w sp) sp) := by
    unfold connackTasks connackRetry
    split
    · exact h2
    · exact h2.pushMisc _ rfl
  exact h3.env (EnvSame.of_conns rfl rfl rfl rfl) rfl rfl

theorem connackPost_accepted (w : World) (k : Nat) (sp : Bool) :
    (connackPost w k sp).accepted = w.accepted := by
  unfold connackPost connackUp connackTasks connackRetry connackResub
  split <;> split <;> rfl

/-- the fields `connectFailed` leaves alone (it kills connection `k`, sets `connReady` and moves
    the reconnect loop on) -/
structure CFSame (w : World) (k : Nat) (w' : World) : Prop where
  taskQ : w'.taskQ = w.taskQ
  retryQ : w'.retryQ = w.retryQ
  broker : w'.broker = w.broker
  stuck : w'.stuck = w.stuck
  pid : w'.pid = w.pid
  accepted : w'.accepted = w.accepted
  cli : w'.cli = w.cli
  conns : w'.conns = (kill { w with connReady := true } k).conns
  initialized : w'.initialized = w.initialized
  gConnected : w'.gConnected = w.gConnected
  goroutine : w'.goroutine = w.goroutine
  phase : ∀ k', w'.phase ≠ .connackGate k'

theorem connectFailed_same (w : World) (k : Nat) : CFSame w k (connectFailed w k) := by
  unfold connectFailed
  simp only
  split
  · exact ⟨rfl, rfl, rfl, rfl, rfl, rfl, rfl, rfl, rfl, rfl, rfl, fun _ h => by cases h⟩
  · exact ⟨rfl, rfl, rfl, rfl, rfl, rfl, rfl, rfl, rfl, rfl, rfl, fun _ h => by cases h⟩

theorem connectFailed_envSame (w : World) (k : Nat) : EnvSame w (connectFailed w k) := by
  have h := connectFailed_same w k
  refine EnvSame.of_pkts h.pid h.accepted h.cli ?_ ?_
  · rw [h.conns]; exact kill_len { w with connReady := true } k
  · rw [allPkts_congr h.conns]; exact allPkts_kill { w with connReady := true } k

/-- how `step` changes the list of accepted requests -/
def AccStep (w : World) (e : Ev) (w' : World) : Prop :=
  w'.accepted = w.accepted ∨ ∃ r, e = .app r ∧ w'.accepted = w.accepted ++ [r]

theorem step_inv {w : World} (e : Ev) (hI : Inv12 w)
    (hnew : ∀ m q, e = .app (.pub m q) → m ∉ accMsgs w) :
    Inv12 (step w e) ∧ AccStep w e (step w e) := by
  cases e with
  | start =>
    simp only [step]
    split
    · exact ⟨hI, Or.inl rfl⟩
    · split
      · split
        · exact ⟨hI.env (EnvSame.of_conns rfl rfl rfl rfl) rfl rfl, Or.inl rfl⟩
        · exact ⟨hI.env (EnvSame.of_conns rfl rfl rfl rfl) rfl rfl, Or.inl rfl⟩
      · exact ⟨hI.env (EnvSame.of_conns rfl rfl rfl rfl) rfl rfl, Or.inl rfl⟩
  | app r =>
    simp only [step]
    split
    · exact ⟨hI.env (EnvSame.of_conns rfl rfl rfl rfl) rfl rfl, Or.inl rfl⟩
    · have := progress_inv (accept_inv r hI (fun m q h => hnew m q (by rw [h])))
      exact ⟨this.1, Or.inr ⟨r, rfl, this.2.accepted⟩⟩
  | dialOk idStart =>
    simp only [step]
    split
    · exact ⟨hI, Or.inl rfl⟩
    · split
      · -- (deaf dialer) the transport arrives after the Connect context was cancelled
        have key : ∀ w0 : World, Inv12 w0 → w0.accepted = w.accepted →
            Inv12 (progress w0) ∧ AccStep w (.dialOk idStart) (progress w0) := fun w0 h0 ha =>
          ⟨(progress_inv h0).1, Or.inl ((progress_inv h0).2.accepted.trans ha)⟩
        refine key _ (hI.env ⟨rfl, fun m => ?_, rfl, fun _ k hk => ?_⟩ rfl rfl) rfl
        · unfold msgPkts allPkts
          simp [List.flatMap_append, about]
        · simp only [Option.some.injEq] at hk
          subst hk; simp
      · refine ⟨hI.env ⟨rfl, fun m => ?_, rfl, fun _ k hk => ?_⟩ rfl rfl, Or.inl rfl⟩
        · unfold msgPkts allPkts
          simp [List.flatMap_append, about]
        · simp only [Option.some.injEq] at hk
          subst hk; simp
  | dialFail =>
    simp only [step]
    split
    · exact ⟨hI, Or.inl rfl⟩
    · split
      · exact ⟨hI.env (EnvSame.of_conns rfl rfl rfl rfl) rfl rfl, Or.inl rfl⟩
      · split
        · exact ⟨hI.env (EnvSame.of_conns rfl rfl rfl rfl) rfl rfl, Or.inl rfl⟩
        · exact ⟨hI.env (EnvSame.of_conns rfl rfl rfl rfl) rfl rfl, Or.inl rfl⟩
  | waitElapsed =>
    simp only [step]
    split
    · exact ⟨hI.env (EnvSame.of_conns rfl rfl rfl rfl) rfl rfl, Or.inl rfl⟩
    · exact ⟨hI, Or.inl rfl⟩
  | cancelCtx =>
    simp only [step]
    split
    · exact ⟨hI, Or.inl rfl⟩
    · split
      · exact ⟨hI.env (EnvSame.of_conns rfl rfl rfl rfl) rfl rfl, Or.inl rfl⟩
      · exact ⟨hI.env (EnvSame.of_conns rfl rfl rfl rfl) rfl rfl, Or.inl rfl⟩
      · split
        · exact ⟨hI.env (EnvSame.of_conns rfl rfl rfl rfl) rfl rfl, Or.inl rfl⟩
        · exact ⟨hI.env (EnvSame.of_conns rfl rfl rfl rfl) rfl rfl, Or.inl rfl⟩
      · rename_i k _
        have ha : Inv12 { w with ctxCancelled := true, connReady := true } :=
          hI.env (EnvSame.of_conns rfl rfl rfl rfl) rfl rfl
        have hb : Inv12 (kill { w with ctxCancelled := true, connReady := true } k) :=
          ha.env (kill_envSame _ k) rfl rfl
        have h0 : Inv12 { kill { w with ctxCancelled := true, connReady := true } k with
            phase := .exited, connectErr := true } :=
          hb.env (EnvSame.of_conns rfl rfl rfl rfl) rfl rfl
        have := progress_inv h0
        exact ⟨this.1, Or.inl this.2.accepted⟩
      · exact ⟨hI.env (EnvSame.of_conns rfl rfl rfl rfl) rfl rfl, Or.inl rfl⟩
      · exact ⟨hI.env (EnvSame.of_conns rfl rfl rfl rfl) rfl rfl, Or.inl rfl⟩
  | connackOk sp inb =>
    by_cases h : ∃ k, w.phase = .connackGate k
    · obtain ⟨k, hk⟩ := h
      rw [step_connackOk w k sp inb hk]
      have h1 := inboundFold_modIn k inb (connackPre w k sp)
      have h2 := progress_inv (connackPost_inv k sp
        ((hI.env (connackPre_envSame w k sp) rfl rfl).env h1.envSame h1.taskQ h1.retryQ))
      exact ⟨h2.1, Or.inl (h2.2.accepted.trans ((connackPost_accepted _ k sp).trans h1.accepted))⟩
    · rw [step_connackOk_other w sp inb (fun k hk => h ⟨k, hk⟩)]; exact ⟨hI, Or.inl rfl⟩
  | connackRefused =>
    simp only [step]
    split
    · rename_i k _
      have := progress_inv (hI.env (connectFailed_envSame w k) (connectFailed_same w k).taskQ
        (connectFailed_same w k).retryQ)
      exact ⟨this.1, Or.inl (this.2.accepted.trans (connectFailed_same w k).accepted)⟩
    · exact ⟨hI, Or.inl rfl⟩
  | connackNever =>
    simp only [step]
    split
    · rename_i k _
      split
      · have := progress_inv (hI.env (connectFailed_envSame w k) (connectFailed_same w k).taskQ
          (connectFailed_same w k).retryQ)
        exact ⟨this.1, Or.inl (this.2.accepted.trans (connectFailed_same w k).accepted)⟩
      · exact ⟨hI, Or.inl rfl⟩
    · exact ⟨hI, Or.inl rfl⟩
  | peerClose =>
    simp only [step]
    split
    · rename_i k _
      have := progress_inv (hI.env (kill_envSame w k) rfl rfl)
      exact ⟨this.1, Or.inl this.2.accepted⟩
    · exact ⟨hI, Or.inl rfl⟩
  | inbound m q =>
    simp only [step]
    split
    · rename_i k _
      have h1 := deliverInbound_modIn w k m q
      exact ⟨hI.env h1.envSame h1.taskQ h1.retryQ, Or.inl h1.accepted⟩
    · exact ⟨hI, Or.inl rfl⟩
  | handle h =>
    simp only [step]
    split
    · refine ⟨hI.env (EnvSame.of_pkts rfl rfl rfl (setConn_len _ _ _) ?_) rfl rfl, Or.inl rfl⟩
      exact allPkts_setConn_same { w with handler := some h } _ _ rfl
    · exact ⟨hI.env (EnvSame.of_conns rfl rfl rfl rfl) rfl rfl, Or.inl rfl⟩
  | disconnect =>
    simp only [step]
    split
    · exact ⟨hI, Or.inl rfl⟩
    · have h0 : Inv12 { pushTask w .disconnect with stopped := true } :=
        (hI.pushMisc .disconnect rfl).env (EnvSame.of_conns rfl rfl rfl rfl) rfl rfl
      have h1 := progress_inv h0
      split
      · exact ⟨h1.1.env (EnvSame.of_conns rfl rfl rfl rfl) rfl rfl, Or.inl h1.2.accepted⟩
      · exact ⟨h1.1.env (EnvSame.of_conns rfl rfl rfl rfl) rfl rfl, Or.inl h1.2.accepted⟩
      · exact ⟨h1.1, Or.inl h1.2.accepted⟩

/-! ### whole runs -/

def pubMsgs (evs : List Ev) : List Nat :=
  evs.filterMap (fun e => match e with | .app (.pub m _) => some m | _ => none)

theorem pubMsgs_cons (e : Ev) (evs : List Ev) : pubMsgs (e :: evs) = pubMsgs [e] ++ pubMsgs evs := by
  unfold pubMsgs
  rw [← List.filterMap_append]; rfl

theorem AccStep.accMsgs {w w' : World} {e : Ev} (h : AccStep w e w') {m : Nat}
    (hm : m ∈ accMsgs w') : m ∈ accMsgs w ∨ m ∈ pubMsgs [e] := by
  rcases h with h | ⟨r, he, h⟩
  · left; unfold Retry.accMsgs at hm ⊢; rwa [h] at hm
  · rw [accMsgs_append w w' r h] at hm
    rcases List.mem_append.1 hm with h' | h'
    · exact Or.inl h'
    · right; subst he
      cases r <;> simp [reqMsg] at h'
      subst h'; simp [pubMsgs]

theorem foldl_inv (evs : List Ev) : ∀ w : World, Inv12 w → (pubMsgs evs).Nodup →
    (∀ m ∈ pubMsgs evs, m ∉ accMsgs w) → Inv12 (evs.foldl step w) := by
  induction evs with
  | nil => intro w hI _ _; exact hI
  | cons e evs ih =>
    intro w hI hnd hnew
    rw [pubMsgs_cons] at hnd hnew
    simp only [List.foldl_cons]
    have hs := step_inv e hI (fun m q he => hnew m (by subst he; simp [pubMsgs]))
    apply ih _ hs.1 (List.nodup_append.1 hnd).2.1
    intro m hm hacc
    rcases hs.2.accMsgs hacc with h | h
    · exact hnew m (List.mem_append_right _ hm) h
    · exact (List.nodup_append.1 hnd).2.2 m h m hm rfl

theorem init_inv (s : Script) : Inv12 (init s) := by
  refine ⟨?_, fun m => good_nil _, List.nodup_nil, ?_, ?_, List.nodup_nil,
    fun m _ => rfl, ?_⟩
  · intro k hk; cases hk
  · intro mq h; cases h
  · intro e h; cases h
  · intro m pw hpw; cases hpw

theorem exec_inv (s : Script) (hd : s.DistinctMsgs) : Inv12 (exec s) :=
  foldl_inv s.evs (init s) (init_inv s) hd (fun m _ h => by cases h)

end Mqtt.Retry
