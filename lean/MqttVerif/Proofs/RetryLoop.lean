/-
  Helper lemmas for C09b (reconnect lifecycle): a "frame" relation between worlds saying that the
  reconnect-loop state is untouched and every connection only ever gets more (non-CONNECT) packets
  and may only go from alive to dead. Every function of the task goroutine (`send` … `runTasks`)
  satisfies it; the loop itself (`loopReact`, `step`) is then analysed case by case.
-/
import MqttVerif.Model.Retry

namespace Mqtt.Retry

/-! ### per-connection extension -/

/-- `c'` is a later state of connection `c`: not resurrected, log extended by non-CONNECT packets -/
def CExt (c c' : Conn) : Prop :=
  (c'.alive = true → c.alive = true) ∧
    ∃ extra : List (Pkt × Wire), c'.pkts = c.pkts ++ extra ∧ ∀ p ∈ extra, p.1 ≠ Pkt.connect

theorem CExt.refl (c : Conn) : CExt c c := ⟨id, [], by simp, by simp⟩

theorem CExt.trans {a b c : Conn} (h1 : CExt a b) (h2 : CExt b c) : CExt a c := by
  obtain ⟨ha, e1, hp1, hn1⟩ := h1
  obtain ⟨hb, e2, hp2, hn2⟩ := h2
  refine ⟨fun h => ha (hb h), e1 ++ e2, by rw [hp2, hp1, List.append_assoc], ?_⟩
  intro p hp
  rcases List.mem_append.1 hp with h | h
  · exact hn1 p h
  · exact hn2 p h

theorem CExt.of_eq {c c' : Conn} (ha : c'.alive = c.alive) (hp : c'.pkts = c.pkts) : CExt c c' :=
  ⟨fun h => ha ▸ h, [], by simp [hp], by simp⟩

/-- connection lists: same length, pointwise extension (through `getD · {}` as `getConn` does) -/
def ConnsExt (cs cs' : List Conn) : Prop :=
  cs'.length = cs.length ∧ ∀ j, CExt (cs.getD j {}) (cs'.getD j {})

theorem ConnsExt.refl (cs : List Conn) : ConnsExt cs cs := ⟨rfl, fun _ => CExt.refl _⟩

theorem ConnsExt.trans {a b c : List Conn} (h1 : ConnsExt a b) (h2 : ConnsExt b c) : ConnsExt a c :=
  ⟨h2.1.trans h1.1, fun j => (h1.2 j).trans (h2.2 j)⟩

theorem ConnsExt.set (cs : List Conn) (k : Nat) (c : Conn) (h : CExt (cs.getD k {}) c) :
    ConnsExt cs (cs.set k c) := by
  refine ⟨by simp, fun j => ?_⟩
  by_cases hk : k < cs.length
  · by_cases hj : k = j
    · subst hj
      have : (cs.set k c).getD k {} = c := by simp [List.getD, hk]
      rw [this]; exact h
    · have : (cs.set k c).getD j {} = cs.getD j {} := by
        simp [List.getD, hj]
      rw [this]; exact CExt.refl _
  · have : cs.set k c = cs := List.set_eq_of_length_le (by omega)
    rw [this]; exact CExt.refl _

/-! ### the frame relation -/

/-- the reconnect-loop part of the state (with `cli` and what `ReconnectClient.Connect` returned / its
    context), which the task goroutine never touches -/
def loopSt (w : World) : Phase × List Nat × Nat × Nat × Bool × Option Nat × Option Bool × Bool × Bool × Cfg :=
  (w.phase, w.waits, w.waitExp, w.dials, w.stopped, w.cli, w.connectReturned, w.ctxCancelled, w.connectErr, w.cfg)

/-- the part that belongs to `ReconnectClient.Connect` and its context -/
def ctxSt (w : World) : Option Bool × Bool × Bool := (w.connectReturned, w.ctxCancelled, w.connectErr)

def Frame (w w' : World) : Prop := ConnsExt w.conns w'.conns ∧ loopSt w' = loopSt w

theorem Frame.refl (w : World) : Frame w w := ⟨ConnsExt.refl _, rfl⟩

theorem Frame.trans {a b c : World} (h1 : Frame a b) (h2 : Frame b c) : Frame a c :=
  ⟨h1.1.trans h2.1, h2.2.trans h1.2⟩

/-- a record update that does not touch the connections or the loop state -/
theorem Frame.upd {w w1 w' : World} (h : Frame w w1) (hc : w'.conns = w1.conns)
    (hl : loopSt w' = loopSt w1) : Frame w w' :=
  ⟨by rw [hc]; exact h.1, hl.trans h.2⟩

theorem Frame.phase {w w' : World} (h : Frame w w') : w'.phase = w.phase := congrArg (·.1) h.2
theorem Frame.waits {w w' : World} (h : Frame w w') : w'.waits = w.waits := congrArg (·.2.1) h.2
theorem Frame.waitExp {w w' : World} (h : Frame w w') : w'.waitExp = w.waitExp := congrArg (·.2.2.1) h.2
theorem Frame.dials {w w' : World} (h : Frame w w') : w'.dials = w.dials := congrArg (·.2.2.2.1) h.2
theorem Frame.stopped {w w' : World} (h : Frame w w') : w'.stopped = w.stopped := congrArg (·.2.2.2.2.1) h.2
theorem Frame.cli {w w' : World} (h : Frame w w') : w'.cli = w.cli := congrArg (·.2.2.2.2.2.1) h.2
theorem Frame.connectReturned {w w' : World} (h : Frame w w') : w'.connectReturned = w.connectReturned :=
  congrArg (·.2.2.2.2.2.2.1) h.2
theorem Frame.ctxCancelled {w w' : World} (h : Frame w w') : w'.ctxCancelled = w.ctxCancelled :=
  congrArg (·.2.2.2.2.2.2.2.1) h.2
theorem Frame.connectErr {w w' : World} (h : Frame w w') : w'.connectErr = w.connectErr :=
  congrArg (·.2.2.2.2.2.2.2.2.1) h.2
theorem Frame.cfg {w w' : World} (h : Frame w w') : w'.cfg = w.cfg := congrArg (·.2.2.2.2.2.2.2.2.2) h.2
theorem Frame.ctx {w w' : World} (h : Frame w w') : ctxSt w' = ctxSt w := by
  unfold ctxSt; rw [h.connectReturned, h.ctxCancelled, h.connectErr]
theorem Frame.length {w w' : World} (h : Frame w w') : w'.conns.length = w.conns.length := h.1.1
theorem Frame.conn {w w' : World} (h : Frame w w') (j : Nat) : CExt (getConn w j) (getConn w' j) := h.1.2 j
theorem Frame.dead {w w' : World} (h : Frame w w') {j : Nat} (hd : (getConn w j).alive = false) :
    (getConn w' j).alive = false := by
  have := (h.conn j).1
  cases hx : (getConn w' j).alive
  · rfl
  · rw [this hx] at hd; cases hd

theorem frame_setConn (w : World) (k : Nat) (c : Conn) (h : CExt (getConn w k) c) :
    Frame w (setConn w k c) :=
  ⟨ConnsExt.set _ _ _ h, rfl⟩

theorem frame_logPkt (w : World) (k : Nat) (p : Pkt) (x : Wire) (hp : p ≠ .connect) :
    Frame w (logPkt w k p x) :=
  frame_setConn _ _ _ ⟨id, [(p, x)], rfl, by simpa using hp⟩

theorem frame_kill (w : World) (k : Nat) : Frame w (kill w k) :=
  frame_setConn _ _ _ ⟨by simp, [], by simp, by simp⟩

theorem kill_dead (w : World) (k : Nat) (hk : k < w.conns.length) : (getConn (kill w k) k).alive = false := by
  simp [kill, getConn, setConn, List.getD, hk]

theorem frame_nextFault (w : World) : Frame w (nextFault w).2 := by
  unfold nextFault
  split
  · exact Frame.refl _
  · exact (Frame.refl w).upd rfl rfl

theorem frame_send (w : World) (k : Nat) (p : Pkt) (b : Bool) (hp : p ≠ .connect) :
    Frame w (send w k p b).1 := by
  unfold send
  split
  · exact frame_logPkt _ _ _ _ hp
  · have h1 := frame_nextFault w
    generalize nextFault w = fw at h1
    obtain ⟨f, w1⟩ := fw
    have h2 : Frame w (logPkt w1 k p (.sent f)) := h1.trans (frame_logPkt _ _ _ _ hp)
    cases f <;> simp only
    · exact h2.upd rfl rfl
    · exact h2.trans (frame_kill _ _)
    · exact h2.trans (frame_kill _ _)
    · exact (h2.upd (w' := { logPkt w1 k p (.sent .lostAck) with
          broker := (logPkt w1 k p (.sent .lostAck)).broker.process p }) rfl rfl).trans (frame_kill _ _)
    · split
      · exact h2.upd rfl rfl
      · split
        · exact h2.upd rfl rfl
        · exact h2.upd rfl rfl

/-! ### request attempts and closures -/

theorem frame_relAttempt (w : World) (k m id : Nat) : Frame w (relAttempt w k m id).1 := by
  unfold relAttempt
  have h := frame_send w k (.pubrel id m) true (by simp)
  generalize send w k (.pubrel id m) true = r at h
  obtain ⟨w1, s⟩ := r
  cases s <;> first | exact h | exact h.upd rfl rfl

/-- the identifier assignment at the head of `pubAttempt` -/
def pubPrep (w : World) (k m : Nat) : World × Nat :=
  match lookupPid w m with
  | some id => (w, id)
  | none =>
    let c := getConn w k
    let (ctr', id) := newID c.ctr
    (setConn { w with pid := w.pid ++ [(m, id)] } k { c with ctr := ctr' }, id)

/-- what `pubAttempt` does once the packet has been sent -/
def pubFinish (k m qos id : Nat) (r : World × Sent) : World × Outcome :=
  match r.2 with
  | .acked =>
    if qos = 2 then relAttempt r.1 k m id
    else if qos = 1 then ({ r.1 with broker := { r.1.broker with acked := r.1.broker.acked ++ [.pub m 1] } }, .done)
    else (r.1, .done)
  | .stuck => (r.1, .stuck)
  | s => (r.1, .fail (if qos = 0 then none else some (.rePublish m qos)) (errOf s))

theorem pubAttempt_eq (w : World) (k m qos : Nat) (dup : Bool) :
    pubAttempt w k m qos dup =
      pubFinish k m qos (pubPrep w k m).2
        (send (pubPrep w k m).1 k (.publish m qos (pubPrep w k m).2 dup) (qos ≠ 0)) := rfl

theorem frame_pubPrep (w : World) (k m : Nat) : Frame w (pubPrep w k m).1 := by
  unfold pubPrep
  split
  · exact Frame.refl _
  · exact ((Frame.refl w).upd (w' := { w with pid := w.pid ++ [(m, (newID (getConn w k).ctr).2)] }) rfl rfl).trans
      (frame_setConn _ _ _ (CExt.of_eq rfl rfl))

theorem frame_pubFinish (w : World) (k m qos id : Nat) (r : World × Sent) (h : Frame w r.1) :
    Frame w (pubFinish k m qos id r).1 := by
  obtain ⟨w1, s⟩ := r
  unfold pubFinish
  cases s <;> try simp only
  · split
    · exact h.trans (frame_relAttempt _ _ _ _)
    · split
      · exact h.upd rfl rfl
      · exact h
  · exact h
  · exact h
  · exact h

theorem frame_pubAttempt (w : World) (k m qos : Nat) (dup : Bool) : Frame w (pubAttempt w k m qos dup).1 := by
  rw [pubAttempt_eq]
  exact frame_pubFinish _ _ _ _ _ _ ((frame_pubPrep w k m).trans (frame_send _ _ _ _ (by simp)))

theorem frame_subAttempt (w : World) (k : Nat) (subs : List Subscription) : Frame w (subAttempt w k subs).1 := by
  unfold subAttempt
  have h0 : Frame w (setConn w k { getConn w k with ctr := (newID (getConn w k).ctr).1 }) :=
    frame_setConn _ _ _ (CExt.of_eq rfl rfl)
  have h := h0.trans (frame_send _ k (.subscribe (newID (getConn w k).ctr).2 subs) true (by simp))
  simp only
  generalize send _ k (.subscribe (newID (getConn w k).ctr).2 subs) true = r at h
  obtain ⟨w1, s⟩ := r
  cases s <;> first | exact h | exact h.upd rfl rfl

theorem frame_unsubAttempt (w : World) (k : Nat) (ts : List Bytes) : Frame w (unsubAttempt w k ts).1 := by
  unfold unsubAttempt
  have h0 : Frame w (setConn w k { getConn w k with ctr := (newID (getConn w k).ctr).1 }) :=
    frame_setConn _ _ _ (CExt.of_eq rfl rfl)
  have h := h0.trans (frame_send _ k (.unsubscribe (newID (getConn w k).ctr).2 ts) true (by simp))
  simp only
  generalize send _ k (.unsubscribe (newID (getConn w k).ctr).2 ts) true = r at h
  obtain ⟨w1, s⟩ := r
  cases s <;> first | exact h | exact h.upd rfl rfl

theorem frame_absorb (w : World) (o : Outcome) : Frame w (absorb w o) := by
  unfold absorb
  split <;> first | exact Frame.refl _ | exact (Frame.refl w).upd rfl rfl

theorem frame_firstPub (w : World) (k m qos : Nat) : Frame w (firstPub w k m qos) :=
  (frame_pubAttempt w k m qos false).trans (frame_absorb _ _)

theorem frame_firstSub (w : World) (k : Nat) (subs : List Subscription) : Frame w (firstSub w k subs) :=
  (frame_subAttempt w k subs).trans (frame_absorb _ _)

theorem frame_firstUnsub (w : World) (k : Nat) (ts : List Bytes) : Frame w (firstUnsub w k ts) :=
  (frame_unsubAttempt w k ts).trans (frame_absorb _ _)

theorem frame_subscribeTask (w : World) (k : Nat) (subs : List Subscription) : Frame w (subscribeTask w k subs) := by
  unfold subscribeTask
  have h : Frame w { w with subEst := applySubs w.subEst subs } := (Frame.refl w).upd rfl rfl
  simp only
  split
  · exact h.trans (frame_firstSub _ _ _)
  · exact h.upd rfl rfl

theorem frame_resubLoop (w : World) (k : Nat) (l : List Subscription) : Frame w (resubLoop w k l) := by
  induction l generalizing w with
  | nil => exact Frame.refl _
  | cons s rest ih =>
    unfold resubLoop
    split
    · exact Frame.refl _
    · exact (frame_subscribeTask w k [s]).trans (ih _)

theorem frame_runEntry (w : World) (k : Nat) (e : Entry) : Frame w (runEntry w k e).1 := by
  cases e <;> simp only [runEntry]
  · exact frame_pubAttempt _ _ _ _ _
  · exact frame_relAttempt _ _ _ _
  · exact frame_subAttempt _ _ _
  · exact frame_unsubAttempt _ _ _
  · exact frame_firstPub _ _ _ _
  · exact frame_firstSub _ _ _
  · exact frame_firstUnsub _ _ _

theorem frame_retryLoop (w : World) (k : Nat) (l : List Entry) : Frame w (retryLoop w k l) := by
  induction l generalizing w with
  | nil => exact Frame.refl _
  | cons e rest ih =>
    unfold retryLoop
    split
    · exact Frame.refl _
    · have h0 : Frame w { w with totalRetries := w.totalRetries + 1 } := (Frame.refl w).upd rfl rfl
      have h := h0.trans (frame_runEntry { w with totalRetries := w.totalRetries + 1 } k e)
      simp only
      generalize runEntry { w with totalRetries := w.totalRetries + 1 } k e = r at h
      obtain ⟨w1, o⟩ := r
      split
      · exact h.upd rfl rfl
      · exact h
      · split
        · exact h.upd rfl rfl
        · exact h.trans (ih _)

theorem frame_runTask (w : World) (k : Nat) (t : Task) : Frame w (runTask w k t) := by
  cases t with
  | req r =>
    cases r with
    | pub m qos =>
      simp only [runTask]
      split
      · exact frame_firstPub _ _ _ _
      · split
        · exact (Frame.refl w).upd rfl rfl
        · exact Frame.refl _
    | sub subs => exact frame_subscribeTask _ _ _
    | unsub ts =>
      simp only [runTask]
      have h : Frame w { w with subEst := applyUnsubs w.subEst ts } := (Frame.refl w).upd rfl rfl
      split
      · exact h.trans (frame_firstUnsub _ _ _)
      · exact h.upd rfl rfl
  | resubscribe =>
    simp only [runTask]
    exact ((Frame.refl w).upd (w' := { w with subEst := [] }) rfl rfl).trans (frame_resubLoop _ _ _)
  | retry =>
    simp only [runTask]
    exact ((Frame.refl w).upd (w' := { w with retryQ := [] }) rfl rfl).trans (frame_retryLoop _ _ _)
  | disconnect =>
    simp only [runTask]
    split
    · exact (frame_logPkt _ _ _ _ (by simp)).trans (frame_kill _ _)
    · exact frame_logPkt _ _ _ _ (by simp)

theorem frame_runTasks (n : Nat) (w : World) : Frame w (runTasks n w) := by
  induction n generalizing w with
  | zero => exact Frame.refl _
  | succ n ih =>
    unfold runTasks
    split
    · exact Frame.refl _
    · split
      · exact Frame.refl _
      · have h0 : Frame w { w with gConnected := true } := (Frame.refl w).upd rfl rfl
        simp only
        split
        · exact h0
        · exact h0
        · rename_i t rest k _ _
          have h1 : Frame w { w with gConnected := true, taskQ := rest, totalTasks := w.totalTasks + 1 } :=
            (Frame.refl w).upd rfl rfl
          have h2 := h1.trans (frame_runTask _ k t)
          split
          · exact h2
          · refine h2.trans (Frame.trans ?_ (ih _))
            split
            · exact (frame_kill _ k).upd rfl rfl
            · exact Frame.refl _

/-! ### the reconnect loop -/

theorem loopReact_conns (w : World) : (loopReact w).conns = w.conns := by
  unfold loopReact; split
  · split
    · rfl
    · split <;> rfl
  · rfl

theorem loopReact_stopped (w : World) : (loopReact w).stopped = w.stopped := by
  unfold loopReact; split
  · split
    · rfl
    · split <;> rfl
  · rfl

/-- the three things `loopReact` can do -/
theorem loopReact_cases (w : World) :
    (loopReact w = w ∧ ∀ k, w.phase = .up k → (getConn w k).alive = true) ∨
    (∃ k, w.phase = .up k ∧ (getConn w k).alive = false ∧ w.stopped = true ∧
        loopReact w = { w with phase := .exited }) ∨
    (∃ k, w.phase = .up k ∧ (getConn w k).alive = false ∧ w.stopped = false ∧
        loopReact w = { w with phase := .backoff, waits := w.waits ++ [w.waitExp],
                               waitExp := w.waitExp + 1 }) := by
  unfold loopReact
  split
  · rename_i k hk
    cases ha : (getConn w k).alive
    · cases hs : w.stopped
      · right; right; exact ⟨k, hk, ha, rfl, by simp⟩
      · right; left; exact ⟨k, hk, ha, rfl, by simp⟩
    · left
      refine ⟨by simp, ?_⟩
      intro k' hk'
      rw [hk] at hk'
      cases hk'
      exact ha
  · rename_i hn
    left
    exact ⟨rfl, fun k hk => absurd hk (hn k)⟩

theorem loopReact_ctx (w : World) : ctxSt (loopReact w) = ctxSt w := by
  unfold loopReact; split
  · split
    · rfl
    · split <;> rfl
  · rfl

theorem loopReact_cfg (w : World) : (loopReact w).cfg = w.cfg := by
  unfold loopReact; split
  · split
    · rfl
    · split <;> rfl
  · rfl

theorem loopReact_dials (w : World) : (loopReact w).dials = w.dials := by
  unfold loopReact; split
  · split
    · rfl
    · split <;> rfl
  · rfl

theorem loopReact_of_not_up (w : World) (h : ∀ k, w.phase ≠ .up k) : loopReact w = w := by
  unfold loopReact
  split
  · rename_i k hk; exact absurd hk (h k)
  · rfl

theorem progress_eq (w : World) : ∃ w1, Frame w w1 ∧ progress w = loopReact w1 :=
  ⟨_, frame_runTasks _ w, rfl⟩

theorem frame_deliverInbound (w : World) (k m qos : Nat) : Frame w (deliverInbound w k m qos) := by
  unfold deliverInbound
  simp only
  by_cases ha : ¬ (getConn w k).alive = true
  · rw [if_pos ha]; exact Frame.refl _
  · rw [if_neg ha]
    have h1 : Frame w (match (getConn w k).handler with
        | some h => { w with handled := w.handled ++ [(k, h, m)] }
        | none => w) := by
      split
      · exact (Frame.refl w).upd rfl rfl
      · exact Frame.refl _
    by_cases hq : qos = 1
    · rw [if_pos hq]; exact h1.trans (frame_logPkt _ _ _ _ (by simp))
    · rw [if_neg hq]; exact h1

theorem frame_foldl_deliverInbound (k : Nat) (l : List (Nat × Nat)) (w : World) :
    Frame w (l.foldl (fun w (mq : Nat × Nat) => deliverInbound w k mq.1 mq.2) w) := by
  induction l generalizing w with
  | nil => exact Frame.refl _
  | cons a l ih => exact (frame_deliverInbound w k a.1 a.2).trans (ih _)

/-- what `Disconnect` does to the phase once the task goroutine and the loop have settled -/
def discPhase : Phase → Phase
  | .up _ => .exited
  | .backoff => .exited
  | p => p

/-- what an effective cancellation of Connect's context does to the phase (except inside the DialContext
    of a dialer that ignores its context, where the phase stays `.dialGate`: `Shape.cancelDeaf`) -/
def cancelPhase : Phase → Phase
  | .idle => .idle
  | .up k => .up k
  | _ => .exited

/-- … and to `connectErr` -/
def cancelErr : Phase → Bool → Bool
  | .idle, b => b
  | .up _, b => b
  | _, _ => true

/-- the connection a successful dial creates -/
def freshConn (w : World) (idStart : Nat) : Conn :=
  { ctr := idStart, handler := w.handler, pkts := [(.connect, .sent .ok)] }

/-- the connection created by a dial that succeeds after the context given to the first Connect was
    cancelled (only a dialer that ignores its context gets that far): CONNECT is written, then
    `BaseClient.Connect` returns the context's error and the loop closes the client — born dead -/
def deadConn (w : World) (idStart : Nat) : Conn :=
  { ctr := idStart, handler := w.handler, pkts := [(.connect, .sent .ok)], alive := false }

/-- no connection changed its liveness -/
def AliveEq (w w' : World) : Prop := ∀ j, (getConn w' j).alive = (getConn w j).alive

theorem AliveEq.refl (w : World) : AliveEq w w := fun _ => rfl

theorem AliveEq.trans {a b c : World} (h1 : AliveEq a b) (h2 : AliveEq b c) : AliveEq a c :=
  fun j => (h2 j).trans (h1 j)

theorem aliveEq_setConn (w : World) (k : Nat) (c : Conn) (h : c.alive = (getConn w k).alive) :
    AliveEq w (setConn w k c) := by
  intro j
  unfold getConn setConn at *
  simp only
  by_cases hk : k < w.conns.length
  · by_cases hj : k = j
    · subst hj
      have : (w.conns.set k c).getD k {} = c := by simp [List.getD, hk]
      rw [this]; exact h
    · have : (w.conns.set k c).getD j {} = w.conns.getD j {} := by simp [List.getD, hj]
      rw [this]
  · have : w.conns.set k c = w.conns := List.set_eq_of_length_le (by omega)
    rw [this]

theorem aliveEq_logPkt (w : World) (k : Nat) (p : Pkt) (x : Wire) : AliveEq w (logPkt w k p x) :=
  aliveEq_setConn _ _ _ rfl

theorem aliveEq_deliverInbound (w : World) (k m qos : Nat) : AliveEq w (deliverInbound w k m qos) := by
  unfold deliverInbound
  simp only
  by_cases ha : ¬ (getConn w k).alive = true
  · rw [if_pos ha]; exact AliveEq.refl _
  · rw [if_neg ha]
    have h1 : AliveEq w (match (getConn w k).handler with
        | some h => { w with handled := w.handled ++ [(k, h, m)] }
        | none => w) := by
      split
      · exact fun _ => rfl
      · exact AliveEq.refl _
    by_cases hq : qos = 1
    · rw [if_pos hq]; exact h1.trans (aliveEq_logPkt _ _ _ _)
    · rw [if_neg hq]; exact h1

/-- The shape of one environment step, as far as the connections and the reconnect loop go. -/
inductive Shape (w : World) : Ev → World → Prop
  /-- nothing but the task goroutine's business -/
  | frame (ev : Ev) (w' : World) (h : Frame w w') (ha : AliveEq w w') : Shape w ev w'
  /-- the task goroutine runs, then the loop looks at its connection -/
  | react (ev : Ev) (w1 : World) (h : Frame w w1) : Shape w ev (loopReact w1)
  | start (hp : w.phase = .idle) (hx : w.ctxCancelled = false) :
      Shape w .start { w with phase := .dialGate, dials := w.dials + 1 }
  /-- Connect called with a context that is already done (context-aware dialer): one dial attempt, then
      the loop returns -/
  | startCancelled (hp : w.phase = .idle) (hx : w.ctxCancelled = true) (hdf : w.cfg.deafDialer = false) :
      Shape w .start { w with phase := .exited, dials := w.dials + 1, connectErr := true }
  /-- … with a dialer that ignores its context: Connect returns the error, the dial goes on -/
  | startCancelledDeaf (hp : w.phase = .idle) (hx : w.ctxCancelled = true) (hdf : w.cfg.deafDialer = true) :
      Shape w .start { w with phase := .dialGate, dials := w.dials + 1, connectErr := true }
  | dialOk (i : Nat) (hp : w.phase = .dialGate) (w' : World)
      (hc : w'.conns = w.conns ++ [freshConn w i]) (hph : w'.phase = .connackGate w.conns.length)
      (hw : w'.waits = w.waits) (he : w'.waitExp = w.waitExp) (hd : w'.dials = w.dials)
      (hs : w'.stopped = w.stopped) (hx : ctxSt w' = ctxSt w) (hcfg : w'.cfg = w.cfg)
      (hnc : ¬ (w.ctxCancelled = true ∧ w.connectReturned = none)) : Shape w (.dialOk i) w'
  /-- the dial succeeds after the context of the first Connect was cancelled (deaf dialer): a connection
      that is born dead (CONNECT written, then closed), the loop ends; the task goroutine may still log
      failed writes on it -/
  | dialOkCancelled (i : Nat) (hp : w.phase = .dialGate) (hcc : w.ctxCancelled = true)
      (hcr : w.connectReturned = none) (w' : World)
      (hc : ConnsExt (w.conns ++ [deadConn w i]) w'.conns) (hph : w'.phase = .exited)
      (hw : w'.waits = w.waits) (he : w'.waitExp = w.waitExp) (hd : w'.dials = w.dials)
      (hs : w'.stopped = w.stopped) (hx : ctxSt w' = ctxSt w) (hcfg : w'.cfg = w.cfg) : Shape w (.dialOk i) w'
  /-- a dial error: the wait is logged, the loop sleeps; no new dial yet -/
  | dialFail (hp : w.phase = .dialGate) (hs0 : w.stopped = false)
      (hnc : ¬ (w.ctxCancelled = true ∧ w.connectReturned = none)) :
      Shape w .dialFail { w with phase := .backoff, waits := w.waits ++ [w.waitExp], waitExp := w.waitExp + 1 }
  /-- a dial error after the context of the first Connect was cancelled (deaf dialer): the loop's select
      on `ctx.Done()` returns, no wait -/
  | dialFailCancelled (hp : w.phase = .dialGate) (hs0 : w.stopped = false) (hcc : w.ctxCancelled = true)
      (hcr : w.connectReturned = none) : Shape w .dialFail { w with phase := .exited }
  /-- a dial error after Disconnect: the loop's select sees `disconnected` and returns -/
  | dialFailStopped (hp : w.phase = .dialGate) (hs0 : w.stopped = true) :
      Shape w .dialFail { w with phase := .exited }
  /-- the back-off timer fires: the next dial -/
  | waitElapsed (hp : w.phase = .backoff) :
      Shape w .waitElapsed { w with phase := .dialGate, dials := w.dials + 1 }
  /-- CONNACK accepted, Disconnect not called: `w1` is the world just before the goroutine's `progress` -/
  | connOk (sp : Bool) (inb : List (Nat × Nat)) (k : Nat) (hp : w.phase = .connackGate k)
      (hs0 : w.stopped = false) (w1 : World)
      (hc : ConnsExt w.conns w1.conns) (hph : w1.phase = .up k)
      (hw : w1.waits = w.waits) (he : w1.waitExp = 0) (hd : w1.dials = w.dials)
      (hs : w1.stopped = w.stopped)
      (hx : ctxSt w1 = (if w.connectReturned.isNone then some sp else w.connectReturned, w.ctxCancelled, w.connectErr))
      (hcfg : w1.cfg = w.cfg) :
      Shape w (.connackOk sp inb) (loopReact w1)
  /-- CONNACK accepted after Disconnect: the loop returns at once instead of watching the connection
      (the queued Disconnect task closes it) -/
  | connOkStopped (sp : Bool) (inb : List (Nat × Nat)) (k : Nat) (hp : w.phase = .connackGate k)
      (hs0 : w.stopped = true) (w' : World)
      (hc : ConnsExt w.conns w'.conns) (hph : w'.phase = .exited)
      (hw : w'.waits = w.waits) (he : w'.waitExp = 0) (hd : w'.dials = w.dials)
      (hs : w'.stopped = w.stopped)
      (hx : ctxSt w' = (if w.connectReturned.isNone then some sp else w.connectReturned, w.ctxCancelled, w.connectErr))
      (hcfg : w'.cfg = w.cfg) :
      Shape w (.connackOk sp inb) w'
  /-- CONNACK refused or timed out, Disconnect not called: the wait is logged, the loop sleeps -/
  | connFail (ev : Ev) (hev : ev = .connackRefused ∨ ev = .connackNever) (k : Nat)
      (hp : w.phase = .connackGate k) (hs0 : w.stopped = false) (w' : World)
      (hc : ConnsExt w.conns w'.conns) (hdead : k < w.conns.length → (getConn w' k).alive = false)
      (hph : w'.phase = .backoff)
      (hw : w'.waits = w.waits ++ [w.waitExp]) (he : w'.waitExp = w.waitExp + 1) (hd : w'.dials = w.dials)
      (hs : w'.stopped = w.stopped) (hx : ctxSt w' = ctxSt w) (hcfg : w'.cfg = w.cfg) : Shape w ev w'
  /-- CONNACK refused or timed out after Disconnect: the loop exits -/
  | connFailStopped (ev : Ev) (hev : ev = .connackRefused ∨ ev = .connackNever) (k : Nat)
      (hp : w.phase = .connackGate k) (hs0 : w.stopped = true) (w' : World)
      (hc : ConnsExt w.conns w'.conns) (hph : w'.phase = .exited)
      (hw : w'.waits = w.waits) (he : w'.waitExp = w.waitExp) (hd : w'.dials = w.dials)
      (hs : w'.stopped = w.stopped) (hx : ctxSt w' = ctxSt w) (hcfg : w'.cfg = w.cfg) : Shape w ev w'
  | disc (hs0 : w.stopped = false) (w1 : World)
      (hc : ConnsExt w.conns w1.conns) (hph : w1.phase = w.phase)
      (hw : w1.waits = w.waits) (he : w1.waitExp = w.waitExp) (hd : w1.dials = w.dials)
      (hs : w1.stopped = true) (hx : ctxSt w1 = ctxSt w) (hcfg : w1.cfg = w.cfg) :
      Shape w .disconnect { loopReact w1 with phase := discPhase (loopReact w1).phase }
  /-- an EFFECTIVE cancellation of the context given to Connect (Connect has not returned yet), except
      inside the DialContext of a dialer that ignores its context (`cancelDeaf`) -/
  | cancel (hcc0 : w.ctxCancelled = false) (hcr0 : w.connectReturned = none) (w' : World)
      (hc : ConnsExt w.conns w'.conns) (hph : w'.phase = cancelPhase w.phase)
      (hup : ∀ k, w.phase = .up k → AliveEq w w')
      (hw : w'.waits = w.waits) (he : w'.waitExp = w.waitExp) (hd : w'.dials = w.dials)
      (hs : w'.stopped = w.stopped)
      (hx : ctxSt w' = (none, true, cancelErr w.phase w.connectErr)) (hcfg : w'.cfg = w.cfg)
      (hnd : w.phase = .dialGate → w.cfg.deafDialer = false) : Shape w .cancelCtx w'
  /-- an effective cancellation inside the DialContext of a dialer that ignores its context: Connect
      returns the context's error at once, the dial goes on (the loop acts on its result: `dialOkCancelled`,
      `dialFailCancelled`) -/
  | cancelDeaf (hcc0 : w.ctxCancelled = false) (hcr0 : w.connectReturned = none) (hp : w.phase = .dialGate)
      (hdf : w.cfg.deafDialer = true) : Shape w .cancelCtx { w with ctxCancelled := true, connectErr := true }

theorem connectFailed_spec (w : World) (k : Nat) :
    ConnsExt w.conns (connectFailed w k).conns ∧
    (k < w.conns.length → (getConn (connectFailed w k) k).alive = false) ∧
    (connectFailed w k).stopped = w.stopped ∧ (connectFailed w k).dials = w.dials ∧
    ctxSt (connectFailed w k) = ctxSt w ∧
    (w.stopped = true → (connectFailed w k).phase = .exited ∧ (connectFailed w k).waits = w.waits ∧
        (connectFailed w k).waitExp = w.waitExp) ∧
    (w.stopped = false → (connectFailed w k).phase = .backoff ∧
        (connectFailed w k).waits = w.waits ++ [w.waitExp] ∧
        (connectFailed w k).waitExp = w.waitExp + 1) := by
  have hk : Frame w (kill { w with connReady := true } k) :=
    ((Frame.refl w).upd (w' := { w with connReady := true }) rfl rfl).trans (frame_kill _ _)
  have hdead : k < w.conns.length → (getConn (kill { w with connReady := true } k) k).alive = false :=
    fun hlt => kill_dead { w with connReady := true } k hlt
  have hw := hk.waits
  have he := hk.waitExp
  have hd := hk.dials
  have hs := hk.stopped
  have hx := hk.ctx
  have hc := hk.1
  unfold connectFailed
  generalize kill { w with connReady := true } k = wk at *
  simp only
  split
  · rename_i hst
    refine ⟨hc, hdead, hs, hd, hx, fun _ => ⟨rfl, hw, he⟩, fun h0 => ?_⟩
    rw [← hs, hst] at h0; cases h0
  · rename_i hst
    refine ⟨hc, hdead, hs, hd, hx, fun h1 => ?_, fun _ => ⟨rfl, ?_, ?_⟩⟩
    · rw [← hs] at h1; exact absurd h1 hst
    · show wk.waits ++ [wk.waitExp] = _; rw [hw, he]
    · show wk.waitExp + 1 = _; rw [he]

theorem connectFailed_cfg (w : World) (k : Nat) : (connectFailed w k).cfg = w.cfg := by
  have hk : Frame w (kill { w with connReady := true } k) :=
    ((Frame.refl w).upd (w' := { w with connReady := true }) rfl rfl).trans (frame_kill _ _)
  have hcf := hk.cfg
  unfold connectFailed
  generalize kill { w with connReady := true } k = wk at *
  simp only
  split <;> exact hcf

theorem connectFailed_shape (w : World) (k : Nat) (ev : Ev) (hev : ev = .connackRefused ∨ ev = .connackNever)
    (hp : w.phase = .connackGate k) : Shape w ev (progress (connectFailed w k)) := by
  obtain ⟨hc, hdead, hs, hd, hx, hT, hF⟩ := connectFailed_spec w k
  have hf := frame_runTasks ((connectFailed w k).taskQ.length + 1) (connectFailed w k)
  have hnu : ∀ k', (runTasks ((connectFailed w k).taskQ.length + 1) (connectFailed w k)).phase ≠ .up k' := by
    intro k'
    rw [hf.phase]
    cases hst : w.stopped
    · rw [(hF hst).1]; simp
    · rw [(hT hst).1]; simp
  have hlr : progress (connectFailed w k) = runTasks ((connectFailed w k).taskQ.length + 1) (connectFailed w k) := by
    unfold progress
    exact loopReact_of_not_up _ hnu
  rw [hlr]
  cases hst : w.stopped
  · obtain ⟨f1, f2, f3⟩ := hF hst
    exact Shape.connFail ev hev k hp hst _ (hc.trans hf.1) (fun hlt => hf.dead (hdead hlt))
      (hf.phase.trans f1) (hf.waits.trans f2) (hf.waitExp.trans f3) (hf.dials.trans hd)
      (hf.stopped.trans hs) (hf.ctx.trans hx) (hf.cfg.trans (connectFailed_cfg w k))
  · obtain ⟨f1, f2, f3⟩ := hT hst
    exact Shape.connFailStopped ev hev k hp hst _ (hc.trans hf.1)
      (hf.phase.trans f1) (hf.waits.trans f2) (hf.waitExp.trans f3) (hf.dials.trans hd)
      (hf.stopped.trans hs) (hf.ctx.trans hx) (hf.cfg.trans (connectFailed_cfg w k))

theorem disc_match (w : World) :
    (match w.phase with
      | .up _ => { w with phase := .exited }
      | .backoff => { w with phase := .exited }
      | _ => w) = { w with phase := discPhase w.phase } := by
  cases w with
  | mk cfg taskQ retryQ subEst closeAfterTask cli connReady goroutine gConnected stopped stuck handler
      totalTasks totalRetries onErrors pid accepted rejected conns phase =>
    cases phase <;> rfl

theorem step_disconnect (w : World) :
    step w .disconnect =
      if w.stopped = true then w
      else { progress { pushTask w .disconnect with stopped := true } with
              phase := discPhase (progress { pushTask w .disconnect with stopped := true }).phase } := by
  rw [← disc_match]; rfl

/-- `.connackOk`, first part: the connection is marked connected, the inbound burst served, the
    loop resets its wait (copied from `step`) -/
def cokB (w : World) (k : Nat) (sp : Bool) (inbound : List (Nat × Nat)) : World :=
  let c := getConn w k
  let w := setConn w k { c with connected := true }
  let w := { w with broker := if sp then w.broker else w.broker.clearSession }
  let w := inbound.foldl (fun w (mq : Nat × Nat) => deliverInbound w k mq.1 mq.2) w
  { w with connReady := true, waitExp := 0,
           connectReturned := if w.connectReturned.isNone then some sp else w.connectReturned }

/-- `.connackOk`, second part: Resubscribe / Retry are queued unless Disconnect was called -/
def cokC (w : World) (sp : Bool) : World :=
  let w := if w.initialized ∧ (¬ sp ∨ w.cfg.always) ∧ ¬ w.stopped then pushTask w .resubscribe else w
  if w.stopped then w else pushTask w .retry

/-- the world just before `progress` in the `.connackOk` step -/
def connackOkPre (w : World) (k : Nat) (sp : Bool) (inbound : List (Nat × Nat)) : World :=
  let w := cokC (cokB w k sp inbound) sp
  { w with initialized := true, phase := if w.stopped then .exited else .up k }

theorem step_connackOk (w : World) (sp : Bool) (inb : List (Nat × Nat)) :
    step w (.connackOk sp inb) =
      match w.phase with
      | .connackGate k => progress (connackOkPre w k sp inb)
      | _ => w := rfl

theorem frame_pushTask (w : World) (t : Task) : Frame w (pushTask w t) := (Frame.refl w).upd rfl rfl

theorem frame_cokC (w : World) (sp : Bool) : Frame w (cokC w sp) := by
  unfold cokC
  by_cases hc : w.initialized ∧ (¬ sp ∨ w.cfg.always) ∧ ¬ w.stopped
  · rw [if_pos hc]
    dsimp only
    split
    · exact frame_pushTask _ _
    · exact (frame_pushTask _ _).trans (frame_pushTask _ _)
  · rw [if_neg hc]
    dsimp only
    split
    · exact Frame.refl _
    · exact frame_pushTask _ _

theorem cokB_spec (w : World) (k : Nat) (sp : Bool) (inb : List (Nat × Nat)) :
    let w1 := cokB w k sp inb
    ConnsExt w.conns w1.conns ∧ w1.waits = w.waits ∧ w1.waitExp = 0 ∧
      w1.dials = w.dials ∧ w1.stopped = w.stopped ∧
      ctxSt w1 = (if w.connectReturned.isNone then some sp else w.connectReturned, w.ctxCancelled, w.connectErr) := by
  have ha : Frame w (setConn w k { getConn w k with connected := true }) :=
    frame_setConn _ _ _ (CExt.of_eq rfl rfl)
  have hb := ha.upd (w' := { setConn w k { getConn w k with connected := true } with
      broker := if sp then (setConn w k { getConn w k with connected := true }).broker
                else (setConn w k { getConn w k with connected := true }).broker.clearSession }) rfl rfl
  have hc := hb.trans (frame_foldl_deliverInbound k inb _)
  simp only [cokB]
  generalize List.foldl (fun w (mq : Nat × Nat) => deliverInbound w k mq.1 mq.2) _ inb = wc at hc
  refine ⟨hc.1, hc.waits, trivial, hc.dials, hc.stopped, ?_⟩
  simp only [ctxSt]
  rw [hc.connectReturned, hc.ctxCancelled, hc.connectErr]

theorem connackOkPre_spec (w : World) (k : Nat) (sp : Bool) (inb : List (Nat × Nat)) :
    let w1 := connackOkPre w k sp inb
    ConnsExt w.conns w1.conns ∧ (w1.phase = if w.stopped then .exited else .up k) ∧ w1.waits = w.waits ∧
      w1.waitExp = 0 ∧ w1.dials = w.dials ∧ w1.stopped = w.stopped ∧
      ctxSt w1 = (if w.connectReturned.isNone then some sp else w.connectReturned, w.ctxCancelled, w.connectErr) := by
  obtain ⟨b1, b2, b3, b4, b5, b6⟩ := cokB_spec w k sp inb
  have hf := frame_cokC (cokB w k sp inb) sp
  have hst : (cokC (cokB w k sp inb) sp).stopped = w.stopped := hf.stopped.trans b5
  refine ⟨b1.trans hf.1, ?_, hf.waits.trans b2, hf.waitExp.trans b3, hf.dials.trans b4, hst, hf.ctx.trans b6⟩
  show (if (cokC (cokB w k sp inb) sp).stopped = true then Phase.exited else Phase.up k) = _
  rw [hst]

theorem cokB_cfg (w : World) (k : Nat) (sp : Bool) (inb : List (Nat × Nat)) : (cokB w k sp inb).cfg = w.cfg := by
  have ha : Frame w (setConn w k { getConn w k with connected := true }) :=
    frame_setConn _ _ _ (CExt.of_eq rfl rfl)
  have hb := ha.upd (w' := { setConn w k { getConn w k with connected := true } with
      broker := if sp then (setConn w k { getConn w k with connected := true }).broker
                else (setConn w k { getConn w k with connected := true }).broker.clearSession }) rfl rfl
  have hc := hb.trans (frame_foldl_deliverInbound k inb _)
  simp only [cokB]
  exact hc.cfg

theorem connackOkPre_cfg (w : World) (k : Nat) (sp : Bool) (inb : List (Nat × Nat)) :
    (connackOkPre w k sp inb).cfg = w.cfg :=
  ((frame_cokC (cokB w k sp inb) sp).cfg).trans (cokB_cfg w k sp inb)

/-- `.cancelCtx` written with `cancelPhase`-style case analysis pulled out of `step` -/
theorem step_cancel_noop (w : World) (h : w.ctxCancelled = true ∨ w.connectReturned.isSome = true) :
    step w .cancelCtx = w := by
  simp only [step]
  rw [if_pos h]

theorem progress_not_up (w : World) (h : ∀ k, w.phase ≠ .up k) : Frame w (progress w) := by
  have hf := frame_runTasks (w.taskQ.length + 1) w
  have : progress w = runTasks (w.taskQ.length + 1) w := by
    unfold progress
    exact loopReact_of_not_up _ (by intro k; rw [hf.phase]; exact h k)
  rw [this]; exact hf

/-- the world after an effective cancellation while the CONNACK is awaited -/
def cancelGate (w : World) (k : Nat) : World :=
  progress { kill { w with ctxCancelled := true, connReady := true } k with phase := .exited, connectErr := true }

theorem cancelGate_spec (w : World) (k : Nat) (hcr0 : w.connectReturned = none) :
    ConnsExt w.conns (cancelGate w k).conns ∧ (cancelGate w k).phase = .exited ∧
    (cancelGate w k).waits = w.waits ∧ (cancelGate w k).waitExp = w.waitExp ∧
    (cancelGate w k).dials = w.dials ∧ (cancelGate w k).stopped = w.stopped ∧
    ctxSt (cancelGate w k) = (none, true, true) := by
  unfold cancelGate
  have h0 : Frame { w with ctxCancelled := true, connReady := true }
      (kill { w with ctxCancelled := true, connReady := true } k) := frame_kill _ _
  generalize hwk : kill { w with ctxCancelled := true, connReady := true } k = wk at h0
  have hf := frame_runTasks (({ wk with phase := .exited, connectErr := true } : World).taskQ.length + 1)
    { wk with phase := .exited, connectErr := true }
  have hlr : progress { wk with phase := .exited, connectErr := true } =
      runTasks (({ wk with phase := .exited, connectErr := true } : World).taskQ.length + 1)
        { wk with phase := .exited, connectErr := true } := by
    unfold progress
    exact loopReact_of_not_up _ (by intro k'; rw [hf.phase]; simp)
  rw [hlr]
  refine ⟨ConnsExt.trans (b := wk.conns) h0.1 hf.1, ?_, ?_, ?_, ?_, ?_, ?_⟩
  · rw [hf.phase]
  · rw [hf.waits]; exact h0.waits
  · rw [hf.waitExp]; exact h0.waitExp
  · rw [hf.dials]; exact h0.dials
  · rw [hf.stopped]; exact h0.stopped
  · rw [hf.ctx]
    have h1 := h0.connectReturned
    have h2 := h0.ctxCancelled
    simp only [ctxSt]
    rw [h1, h2]
    simp [hcr0]

theorem progress_cfg (w : World) : (progress w).cfg = w.cfg := by
  unfold progress
  rw [loopReact_cfg]; exact (frame_runTasks _ w).cfg

theorem cancelGate_cfg (w : World) (k : Nat) : (cancelGate w k).cfg = w.cfg := by
  unfold cancelGate
  rw [progress_cfg]
  exact (frame_kill { w with ctxCancelled := true, connReady := true } k).cfg

/-- … the connection whose CONNACK was awaited is closed -/
theorem cancelGate_dead (w : World) (k : Nat) (hk : k < w.conns.length) :
    (getConn (cancelGate w k) k).alive = false := by
  unfold cancelGate
  have hd := kill_dead { w with ctxCancelled := true, connReady := true } k hk
  generalize kill { w with ctxCancelled := true, connReady := true } k = wk at hd
  have hd' : (getConn { wk with phase := .exited, connectErr := true } k).alive = false := hd
  have hf := progress_not_up { wk with phase := .exited, connectErr := true } (by intro k'; simp)
  exact hf.dead hd'

theorem step_cancel_gate (w : World) (k : Nat) (hcc0 : w.ctxCancelled = false) (hcr0 : w.connectReturned = none)
    (hp : w.phase = .connackGate k) : step w .cancelCtx = cancelGate w k := by
  have h : ¬ (w.ctxCancelled = true ∨ w.connectReturned.isSome = true) := by
    rw [hcc0, hcr0]; simp
  simp only [step, if_neg h, hp, cancelGate]

/-- an effective `.cancelCtx` inside the DialContext of a dialer that ignores its context: only the
    context and Connect's result change, the dial goes on -/
theorem step_cancel_deaf (w : World) (hcc0 : w.ctxCancelled = false) (hcr0 : w.connectReturned = none)
    (hp : w.phase = .dialGate) (hdf : w.cfg.deafDialer = true) :
    step w .cancelCtx = { w with ctxCancelled := true, connectErr := true } := by
  have h : ¬ (w.ctxCancelled = true ∨ w.connectReturned.isSome = true) := by
    rw [hcc0, hcr0]; simp
  simp only [step, if_neg h, hp, hdf, if_true]

/-- an EFFECTIVE `.cancelCtx` (Connect has not returned, the context was not cancelled before), except
    inside the DialContext of a dialer that ignores its context (for which see `step_cancel_deaf`) -/
theorem cancel_spec (w : World) (hcc0 : w.ctxCancelled = false) (hcr0 : w.connectReturned = none)
    (hnd : w.phase = .dialGate → w.cfg.deafDialer = false) :
    ConnsExt w.conns (step w .cancelCtx).conns ∧ (step w .cancelCtx).phase = cancelPhase w.phase ∧
    (∀ k, w.phase = .up k → AliveEq w (step w .cancelCtx)) ∧
    (step w .cancelCtx).waits = w.waits ∧ (step w .cancelCtx).waitExp = w.waitExp ∧
    (step w .cancelCtx).dials = w.dials ∧ (step w .cancelCtx).stopped = w.stopped ∧
    ctxSt (step w .cancelCtx) = (none, true, cancelErr w.phase w.connectErr) := by
  have h : ¬ (w.ctxCancelled = true ∨ w.connectReturned.isSome = true) := by
    rw [hcc0, hcr0]; simp
  cases hph : w.phase with
  | idle =>
    have hst : step w .cancelCtx = { w with ctxCancelled := true } := by simp only [step, if_neg h, hph]
    rw [hst]
    exact ⟨ConnsExt.refl _, hph, (fun k hk => by cases hk), rfl, rfl, rfl, rfl, by simp [ctxSt, cancelErr, hcr0]⟩
  | backoff =>
    have hst : step w .cancelCtx = { w with ctxCancelled := true, phase := .exited, connectErr := true } := by
      simp only [step, if_neg h, hph]
    rw [hst]
    exact ⟨ConnsExt.refl _, rfl, (fun k hk => by cases hk), rfl, rfl, rfl, rfl, by simp [ctxSt, cancelErr, hcr0]⟩
  | dialGate =>
    have hdf : w.cfg.deafDialer = false := hnd hph
    have hst : step w .cancelCtx = { w with ctxCancelled := true, phase := .exited, connectErr := true } := by
      simp only [step, if_neg h, hph, hdf]
      rfl
    rw [hst]
    exact ⟨ConnsExt.refl _, rfl, (fun k hk => by cases hk), rfl, rfl, rfl, rfl, by simp [ctxSt, cancelErr, hcr0]⟩
  | exited =>
    have hst : step w .cancelCtx = { w with ctxCancelled := true, connectErr := true } := by
      simp only [step, if_neg h, hph]
    rw [hst]
    exact ⟨ConnsExt.refl _, hph, (fun k hk => by cases hk), rfl, rfl, rfl, rfl, by simp [ctxSt, cancelErr, hcr0]⟩
  | up k =>
    have hst : step w .cancelCtx = { w with ctxCancelled := true } := by simp only [step, if_neg h, hph]
    rw [hst]
    exact ⟨ConnsExt.refl _, hph, (fun _ _ => fun _ => rfl), rfl, rfl, rfl, rfl, by simp [ctxSt, cancelErr, hcr0]⟩
  | connackGate k =>
    have hst : step w .cancelCtx = cancelGate w k := by simp only [step, if_neg h, hph, cancelGate]
    rw [hst]
    obtain ⟨c1, c2, c3, c4, c5, c6, c7⟩ := cancelGate_spec w k hcr0
    exact ⟨c1, c2, (fun k hk => by cases hk), c3, c4, c5, c6, c7⟩

theorem step_cancel_cfg (w : World) : (step w .cancelCtx).cfg = w.cfg := by
  by_cases h : w.ctxCancelled = true ∨ w.connectReturned.isSome = true
  · rw [step_cancel_noop w h]
  · cases hph : w.phase with
    | connackGate k =>
      have hst : step w .cancelCtx = cancelGate w k := by simp only [step, if_neg h, hph, cancelGate]
      rw [hst]; exact cancelGate_cfg w k
    | dialGate =>
      simp only [step, if_neg h, hph]
      split <;> rfl
    | _ => simp only [step, if_neg h, hph]

theorem step_shape (w : World) (ev : Ev) : Shape w ev (step w ev) := by
  cases ev with
  | start =>
    simp only [step]
    split
    · exact Shape.frame _ _ (Frame.refl _) (AliveEq.refl _)
    · rename_i h
      have hp : w.phase = .idle := by simpa using h
      split
      · rename_i hx
        split
        · rename_i hdf; exact Shape.startCancelledDeaf hp hx hdf
        · rename_i hdf; exact Shape.startCancelled hp hx (by simpa using hdf)
      · rename_i hx; exact Shape.start hp (by simpa using hx)
  | app r =>
    simp only [step]
    split
    · exact Shape.frame _ _ ((Frame.refl w).upd rfl rfl) (fun _ => rfl)
    · exact Shape.react _ _ (((Frame.refl w).upd
        (w' := pushTask { w with accepted := w.accepted ++ [r] } (.req r)) rfl rfl).trans (frame_runTasks _ _))
  | dialOk i =>
    simp only [step]
    split
    · exact Shape.frame _ _ (Frame.refl _) (AliveEq.refl _)
    · rename_i h
      have hp : w.phase = .dialGate := by simpa using h
      split
      · rename_i hcn
        have hcr : w.connectReturned = none := Option.isNone_iff_eq_none.1 hcn.2
        have hf := progress_not_up
          { w with conns := w.conns ++ [deadConn w i], cli := some w.conns.length, connReady := true,
                   goroutine := true,
                   gConnected := if w.goroutine ∧ w.gConnected ∧ ¬ w.stuck then false else w.gConnected,
                   phase := .exited } (by intro k; simp)
        exact Shape.dialOkCancelled i hp hcn.1 hcr _ hf.1 hf.phase hf.waits hf.waitExp hf.dials hf.stopped
          hf.ctx hf.cfg
      · rename_i hcn
        refine Shape.dialOk i hp _ rfl rfl rfl rfl rfl rfl rfl rfl ?_
        intro hc
        exact hcn ⟨hc.1, by rw [hc.2]; rfl⟩
  | dialFail =>
    simp only [step]
    split
    · exact Shape.frame _ _ (Frame.refl _) (AliveEq.refl _)
    · rename_i h
      split
      · rename_i hs; exact Shape.dialFailStopped (by simpa using h) hs
      · rename_i hs
        split
        · rename_i hcn
          exact Shape.dialFailCancelled (by simpa using h) (by simpa using hs) hcn.1
            (Option.isNone_iff_eq_none.1 hcn.2)
        · rename_i hcn
          refine Shape.dialFail (by simpa using h) (by simpa using hs) ?_
          intro hc
          exact hcn ⟨hc.1, by rw [hc.2]; rfl⟩
  | waitElapsed =>
    simp only [step]
    split
    · rename_i h; exact Shape.waitElapsed h
    · exact Shape.frame _ _ (Frame.refl _) (AliveEq.refl _)
  | cancelCtx =>
    by_cases h : w.ctxCancelled = true ∨ w.connectReturned.isSome = true
    · rw [step_cancel_noop w h]; exact Shape.frame _ _ (Frame.refl _) (AliveEq.refl _)
    · have hcc0 : w.ctxCancelled = false := by
        cases hx : w.ctxCancelled
        · rfl
        · exact absurd (Or.inl hx) h
      have hcr0 : w.connectReturned = none := by
        cases hx : w.connectReturned
        · rfl
        · exact absurd (Or.inr (by rw [hx]; rfl)) h
      by_cases hdd : w.phase = .dialGate ∧ w.cfg.deafDialer = true
      · rw [step_cancel_deaf w hcc0 hcr0 hdd.1 hdd.2]
        exact Shape.cancelDeaf hcc0 hcr0 hdd.1 hdd.2
      · have hnd : w.phase = .dialGate → w.cfg.deafDialer = false := by
          intro hp
          cases hq : w.cfg.deafDialer
          · rfl
          · exact absurd ⟨hp, hq⟩ hdd
        obtain ⟨c1, c2, c3, c4, c5, c6, c7, c8⟩ := cancel_spec w hcc0 hcr0 hnd
        exact Shape.cancel hcc0 hcr0 _ c1 c2 c3 c4 c5 c6 c7 c8 (step_cancel_cfg w) hnd
  | connackOk sp inb =>
    rw [step_connackOk]
    split
    · rename_i k hk
      obtain ⟨h1, h2, h3, h4, h5, h6, h7⟩ := connackOkPre_spec w k sp inb
      have hf := frame_runTasks ((connackOkPre w k sp inb).taskQ.length + 1) (connackOkPre w k sp inb)
      cases hst : w.stopped
      · rw [hst] at h2
        exact Shape.connOk sp inb k hk hst _ (h1.trans hf.1) (hf.phase.trans h2) (hf.waits.trans h3)
          (hf.waitExp.trans h4) (hf.dials.trans h5) (hf.stopped.trans h6) (hf.ctx.trans h7)
          (hf.cfg.trans (connackOkPre_cfg w k sp inb))
      · rw [hst] at h2
        have hph : (runTasks ((connackOkPre w k sp inb).taskQ.length + 1) (connackOkPre w k sp inb)).phase
            = .exited := hf.phase.trans h2
        have hlr : progress (connackOkPre w k sp inb)
            = runTasks ((connackOkPre w k sp inb).taskQ.length + 1) (connackOkPre w k sp inb) := by
          unfold progress
          exact loopReact_of_not_up _ (by intro k'; rw [hph]; simp)
        rw [hlr]
        exact Shape.connOkStopped sp inb k hk hst _ (h1.trans hf.1) hph (hf.waits.trans h3)
          (hf.waitExp.trans h4) (hf.dials.trans h5) (hf.stopped.trans h6) (hf.ctx.trans h7)
          (hf.cfg.trans (connackOkPre_cfg w k sp inb))
    · exact Shape.frame _ _ (Frame.refl _) (AliveEq.refl _)
  | connackRefused =>
    simp only [step]
    split
    · rename_i k hk; exact connectFailed_shape w k _ (Or.inl rfl) hk
    · exact Shape.frame _ _ (Frame.refl _) (AliveEq.refl _)
  | connackNever =>
    simp only [step]
    split
    · rename_i k hk
      split
      · exact connectFailed_shape w k _ (Or.inr rfl) hk
      · exact Shape.frame _ _ (Frame.refl _) (AliveEq.refl _)
    · exact Shape.frame _ _ (Frame.refl _) (AliveEq.refl _)
  | peerClose =>
    simp only [step]
    split
    · exact Shape.react _ _ ((frame_kill w _).trans (frame_runTasks _ _))
    · exact Shape.frame _ _ (Frame.refl _) (AliveEq.refl _)
  | inbound m qos =>
    simp only [step]
    split
    · exact Shape.frame _ _ (frame_deliverInbound _ _ _ _) (aliveEq_deliverInbound _ _ _ _)
    · exact Shape.frame _ _ (Frame.refl _) (AliveEq.refl _)
  | handle h =>
    simp only [step]
    have h0 : Frame w { w with handler := some h } := (Frame.refl w).upd rfl rfl
    split
    · exact Shape.frame _ _ (h0.trans (frame_setConn _ _ _ (CExt.of_eq rfl rfl)))
        (AliveEq.trans (b := { w with handler := some h }) (fun _ => rfl) (aliveEq_setConn _ _ _ rfl))
    · exact Shape.frame _ _ h0 (fun _ => rfl)
  | disconnect =>
    rw [step_disconnect]
    split
    · exact Shape.frame _ _ (Frame.refl _) (AliveEq.refl _)
    · rename_i hs
      have h0 : Frame w (pushTask w .disconnect) := (Frame.refl w).upd rfl rfl
      have hf := frame_runTasks
        (({ pushTask w .disconnect with stopped := true } : World).taskQ.length + 1)
        { pushTask w .disconnect with stopped := true }
      exact Shape.disc (by simpa using hs) _ (h0.1.trans hf.1) (hf.phase.trans h0.phase)
        (hf.waits.trans h0.waits) (hf.waitExp.trans h0.waitExp) (hf.dials.trans h0.dials) (hf.stopped.trans rfl)
        (hf.ctx.trans h0.ctx) (hf.cfg.trans h0.cfg)

/-! ### invariants over whole runs -/

theorem foldl_step_inv (P : World → Prop) (hstep : ∀ w ev, P w → P (step w ev)) :
    ∀ (evs : List Ev) (w : World), P w → P (evs.foldl step w) := by
  intro evs
  induction evs with
  | nil => intro w h; exact h
  | cons e evs ih => intro w h; exact ih _ (hstep w e h)

theorem exec_inv (P : World → Prop) (h0 : ∀ s, P (init s)) (hstep : ∀ w ev, P w → P (step w ev))
    (s : Script) : P (exec s) :=
  foldl_step_inv P hstep s.evs _ (h0 s)

theorem ConnsExt.dead {cs cs' : List Conn} (h : ConnsExt cs cs') {j : Nat}
    (hd : (cs.getD j {}).alive = false) : (cs'.getD j {}).alive = false := by
  have := (h.2 j).1
  cases hx : (cs'.getD j {}).alive
  · rfl
  · rw [this hx] at hd; cases hd

/-! #### (1) one live transport -/

/-- all connections but the last are dead; at the dial gate and during the back-off wait all are;
    the loop watches the last one -/
def TInv (w : World) : Prop :=
  (∀ k, k + 1 < w.conns.length → (getConn w k).alive = false) ∧
  ((w.phase = .dialGate ∨ w.phase = .backoff) → ∀ k, k < w.conns.length → (getConn w k).alive = false) ∧
  (w.phase = .idle → w.conns.length = 0) ∧
  (∀ k, (w.phase = .connackGate k ∨ w.phase = .up k) → k + 1 = w.conns.length)

theorem TInv.transfer {w w' : World} (h : TInv w) (hc : ConnsExt w.conns w'.conns) (hp : w'.phase = w.phase) :
    TInv w' := by
  obtain ⟨h1, h2, h3, h4⟩ := h
  refine ⟨?_, ?_, ?_, ?_⟩
  · intro k hk
    rw [hc.1] at hk
    exact hc.dead (h1 k hk)
  · intro hd k hk
    rw [hc.1] at hk
    exact hc.dead (h2 (hp ▸ hd) k hk)
  · intro hi; rw [hc.1]; exact h3 (hp ▸ hi)
  · intro k hk; rw [hc.1]; exact h4 k (hp ▸ hk)

/-- into `.exited` only the first clause matters -/
theorem TInv.to_exited {w w' : World} (h : TInv w) (hc : ConnsExt w.conns w'.conns) (hp : w'.phase = .exited) :
    TInv w' := by
  refine ⟨?_, by simp [hp], by simp [hp], by simp [hp]⟩
  intro j hj
  rw [hc.1] at hj
  exact hc.dead (h.1 j hj)

theorem TInv.all_dead {w : World} (h : TInv w) (k : Nat) (hk : k + 1 = w.conns.length)
    (hd : (getConn w k).alive = false) : ∀ j, j < w.conns.length → (getConn w j).alive = false := by
  intro j hj
  by_cases hjk : j = k
  · subst hjk; exact hd
  · exact h.1 j (by omega)

theorem TInv.loopReact {w : World} (h : TInv w) : TInv (loopReact w) := by
  rcases loopReact_cases w with ⟨e, _⟩ | ⟨k, hk, hd, _, e⟩ | ⟨k, hk, hd, _, e⟩
  · rw [e]; exact h
  · rw [e]
    exact ⟨h.1, by simp, by simp, by simp⟩
  · rw [e]
    refine ⟨h.1, fun _ => h.all_dead k (h.2.2.2 k (Or.inr hk)) hd, by simp, by simp⟩

theorem TInv.disc {w : World} (h : TInv w) : TInv { w with phase := discPhase w.phase } := by
  obtain ⟨h1, h2, h3, h4⟩ := h
  cases hp : w.phase with
  | idle => exact ⟨h1, by simp [discPhase], fun _ => h3 hp, by simp [discPhase]⟩
  | backoff => exact ⟨h1, by simp [discPhase], by simp [discPhase], by simp [discPhase]⟩
  | dialGate => exact ⟨h1, fun _ => h2 (Or.inl hp), by simp [discPhase], by simp [discPhase]⟩
  | connackGate k =>
    refine ⟨h1, by simp [discPhase], by simp [discPhase], ?_⟩
    intro k' hk'
    simp only [discPhase] at hk'
    exact h4 k' (hp ▸ hk')
  | up k => exact ⟨h1, by simp [discPhase], by simp [discPhase], by simp [discPhase]⟩
  | exited => exact ⟨h1, by simp [discPhase], by simp [discPhase], by simp [discPhase]⟩

theorem getD_append_left (cs : List Conn) (c : Conn) (k : Nat) (hk : k < cs.length) :
    (cs ++ [c]).getD k {} = cs.getD k {} := by
  simp [List.getD, List.getElem?_append_left hk]

theorem TInv.shape {w w' : World} {ev : Ev} (h : TInv w) (hs : Shape w ev w') : TInv w' := by
  cases hs with
  | frame _ _ hf => exact h.transfer hf.1 hf.phase
  | react _ w1 hf => exact (h.transfer hf.1 hf.phase).loopReact
  | start hp =>
    have h0 := h.2.2.1 hp
    refine ⟨h.1, ?_, by simp, by simp⟩
    intro _ k hk
    exact absurd hk (by simp only; omega)
  | startCancelled hp => exact ⟨h.1, by simp, by simp, by simp⟩
  | startCancelledDeaf hp =>
    have h0 := h.2.2.1 hp
    refine ⟨h.1, ?_, by simp, by simp⟩
    intro _ k hk
    exact absurd hk (by simp only; omega)
  | dialOkCancelled i hp _ _ _ hc hph =>
    have hall := h.2.1 (Or.inl hp)
    refine ⟨?_, by simp [hph], by simp [hph], by simp [hph]⟩
    intro k hk
    rw [hc.1] at hk
    simp at hk
    have := hall k hk
    unfold getConn at this ⊢
    apply hc.dead
    rw [getD_append_left _ _ _ hk]
    exact this
  | dialFailCancelled hp => exact ⟨h.1, by simp, by simp, by simp⟩
  | cancelDeaf _ _ hp => exact ⟨h.1, fun _ => h.2.1 (Or.inl hp), by simp [hp], by simp [hp]⟩
  | dialOk i hp _ hc hph hw he hd hs =>
    have hall := h.2.1 (Or.inl hp)
    refine ⟨?_, by simp [hph], by simp [hph], ?_⟩
    · intro k hk
      rw [hc] at hk
      simp at hk
      have := hall k hk
      unfold getConn at this ⊢
      rw [hc, getD_append_left _ _ _ hk]
      exact this
    · intro k hk
      rw [hph] at hk
      simp at hk
      rw [hc]; simp [hk]
  | dialFail hp => exact ⟨h.1, fun _ => h.2.1 (Or.inl hp), by simp, by simp⟩
  | dialFailStopped hp => exact ⟨h.1, by simp, by simp, by simp⟩
  | waitElapsed hp => exact ⟨h.1, fun _ => h.2.1 (Or.inr hp), by simp, by simp⟩
  | connOkStopped sp inb k hp _ _ hc hph => exact h.to_exited hc hph
  | connFailStopped _ hev k hp _ _ hc hph => exact h.to_exited hc hph
  | connOk sp inb k hp _ w1 hc hph hw he hd hs =>
    apply TInv.loopReact
    have hlen := h.2.2.2 k (Or.inl hp)
    refine ⟨?_, by simp [hph], by simp [hph], ?_⟩
    · intro j hj
      rw [hc.1] at hj
      exact hc.dead (h.1 j hj)
    · intro k' hk'
      rw [hph] at hk'
      simp at hk'
      rw [hc.1, ← hk']; exact hlen
  | connFail _ hev k hp _ _ hc hdead hph hw he hd hs =>
    have hlen := h.2.2.2 k (Or.inl hp)
    have h1 : ∀ j, j + 1 < w'.conns.length → (getConn w' j).alive = false := by
      intro j hj
      rw [hc.1] at hj
      exact hc.dead (h.1 j hj)
    refine ⟨h1, ?_, by simp [hph], by simp [hph]⟩
    intro _ j hj
    by_cases hjk : j = k
    · subst hjk; exact hdead (by omega)
    · exact h1 j (by rw [hc.1] at hj ⊢; omega)
  | disc hs0 w1 hc hph hw he hd hs =>
    exact (h.transfer hc hph).loopReact.disc
  | cancel hcc0 hcr0 _ hc hph hup =>
    cases hp : w.phase with
    | idle => exact h.transfer hc (by rw [hph, hp]; rfl)
    | up k => exact h.transfer hc (by rw [hph, hp]; rfl)
    | backoff => exact h.to_exited hc (by rw [hph, hp]; rfl)
    | dialGate => exact h.to_exited hc (by rw [hph, hp]; rfl)
    | connackGate k => exact h.to_exited hc (by rw [hph, hp]; rfl)
    | exited => exact h.to_exited hc (by rw [hph, hp]; rfl)

theorem TInv.at_init (s : Script) : TInv (init s) := by
  refine ⟨?_, ?_, ?_, ?_⟩ <;> simp [Retry.init]

theorem TInv.exec (s : Script) : TInv (exec s) :=
  exec_inv TInv TInv.at_init (fun w ev h => h.shape (step_shape w ev)) s

/-! #### (2) CONNECT first and once -/

def ConnOK (c : Conn) : Prop :=
  c.pkts.head? = some (.connect, .sent .ok) ∧ (c.pkts.filter (fun pw => pw.1 == Pkt.connect)).length = 1

theorem ConnOK.ext {c c' : Conn} (h : ConnOK c) (he : CExt c c') : ConnOK c' := by
  obtain ⟨_, extra, hp, hn⟩ := he
  obtain ⟨h1, h2⟩ := h
  have hf : extra.filter (fun pw => pw.1 == Pkt.connect) = [] := by
    rw [List.filter_eq_nil_iff]
    intro p hp
    simpa using hn p hp
  refine ⟨?_, ?_⟩
  · rw [hp]
    cases hc : c.pkts with
    | nil => rw [hc] at h1; simp at h1
    | cons a l => rw [hc] at h1; simpa using h1
  · rw [hp, List.filter_append, hf, List.append_nil]; exact h2

def CInv (cs : List Conn) : Prop := ∀ (k : Nat) (c : Conn), cs[k]? = some c → ConnOK c

theorem CInv.ext {cs cs' : List Conn} (h : CInv cs) (he : ConnsExt cs cs') : CInv cs' := by
  intro k c' hk
  have hlt' : k < cs'.length := by
    rcases List.getElem?_eq_some_iff.1 hk with ⟨hlt, _⟩; exact hlt
  have hlt : k < cs.length := he.1 ▸ hlt'
  have h0 : cs[k]? = some cs[k] := List.getElem?_eq_getElem hlt
  have hx := he.2 k
  have e1 : cs.getD k {} = cs[k] := by simp [List.getD, h0]
  have e2 : cs'.getD k {} = c' := by simp [List.getD, hk]
  rw [e1, e2] at hx
  exact (h k _ h0).ext hx

theorem freshConn_ok (w : World) (i : Nat) : ConnOK (freshConn w i) := by
  simp [ConnOK, freshConn]

theorem CInv.snoc {cs : List Conn} (h : CInv cs) {c : Conn} (hc : ConnOK c) : CInv (cs ++ [c]) := by
  intro k c' hk
  by_cases hlt : k < cs.length
  · rw [List.getElem?_append_left hlt] at hk; exact h k c' hk
  · rw [List.getElem?_append_right (by omega)] at hk
    have : k - cs.length = 0 := by
      rcases List.getElem?_eq_some_iff.1 hk with ⟨hl, _⟩
      simp at hl; exact hl
    rw [this] at hk
    simp at hk
    rw [← hk]; exact hc

theorem deadConn_ok (w : World) (i : Nat) : ConnOK (deadConn w i) := by
  simp [ConnOK, deadConn]

/-- what one step does to the list of connections: every connection is extended (`ConnsExt`), or a
    fresh one is appended, or (a dial that succeeds after the first Connect's context was cancelled) a
    dead one is appended, on which the task goroutine may log failed writes at once -/
theorem shape_conns {w w' : World} {ev : Ev} (hs : Shape w ev w') :
    ConnsExt w.conns w'.conns ∨ (∃ i, w'.conns = w.conns ++ [freshConn w i]) ∨
      ∃ i, ConnsExt (w.conns ++ [deadConn w i]) w'.conns := by
  cases hs with
  | startCancelledDeaf hp => exact Or.inl (ConnsExt.refl _)
  | dialOkCancelled i hp _ _ _ hc => exact Or.inr (Or.inr ⟨i, hc⟩)
  | dialFailCancelled hp => exact Or.inl (ConnsExt.refl _)
  | cancelDeaf => exact Or.inl (ConnsExt.refl _)
  | frame _ _ hf => exact Or.inl hf.1
  | react _ w1 hf => left; rw [loopReact_conns]; exact hf.1
  | start hp => exact Or.inl (ConnsExt.refl _)
  | startCancelled hp => exact Or.inl (ConnsExt.refl _)
  | waitElapsed hp => exact Or.inl (ConnsExt.refl _)
  | cancel _ _ _ hc => exact Or.inl hc
  | dialOk i hp _ hc => exact Or.inr (Or.inl ⟨i, hc⟩)
  | dialFail hp => exact Or.inl (ConnsExt.refl _)
  | dialFailStopped hp => exact Or.inl (ConnsExt.refl _)
  | connOk sp inb k hp _ w1 hc => left; rw [loopReact_conns]; exact hc
  | connOkStopped sp inb k hp _ _ hc => exact Or.inl hc
  | connFail _ hev k hp _ _ hc => exact Or.inl hc
  | connFailStopped _ hev k hp _ _ hc => exact Or.inl hc
  | disc hs0 w1 hc => left; show ConnsExt w.conns (loopReact w1).conns; rw [loopReact_conns]; exact hc

theorem CInv.exec (s : Script) : CInv (exec s).conns := by
  refine exec_inv (fun w => CInv w.conns) ?_ ?_ s
  · intro s k c hk; simp [init] at hk
  · intro w ev h
    rcases shape_conns (step_shape w ev) with he | ⟨i, he⟩ | ⟨i, he⟩
    · exact h.ext he
    · rw [he]; exact h.snoc (freshConn_ok w i)
    · exact (h.snoc (deadConn_ok w i)).ext he

/-! #### (3) the waits -/

theorem loopReact_waits (w : World) :
    ((loopReact w).waits = w.waits ∧ (loopReact w).waitExp = w.waitExp) ∨
    ((loopReact w).waits = w.waits ++ [w.waitExp] ∧ (loopReact w).waitExp = w.waitExp + 1) := by
  rcases loopReact_cases w with ⟨e, _⟩ | ⟨k, hk, hd, _, e⟩ | ⟨k, hk, hd, _, e⟩
  · rw [e]; exact Or.inl ⟨rfl, rfl⟩
  · rw [e]; exact Or.inl ⟨rfl, rfl⟩
  · rw [e]; exact Or.inr ⟨rfl, rfl⟩

/-- what one step does to the wait log: nothing, one more wait, a reset, or a reset followed by a wait -/
theorem shape_waits {w w' : World} {ev : Ev} (hs : Shape w ev w') :
    (w'.waits = w.waits ∧ w'.waitExp = w.waitExp) ∨
    (w'.waits = w.waits ++ [w.waitExp] ∧ w'.waitExp = w.waitExp + 1) ∨
    (w'.waits = w.waits ∧ w'.waitExp = 0) ∨
    (w'.waits = w.waits ++ [0] ∧ w'.waitExp = 1) := by
  cases hs with
  | frame _ _ hf => exact Or.inl ⟨hf.waits, hf.waitExp⟩
  | react _ w1 hf =>
    rcases loopReact_waits w1 with ⟨a, b⟩ | ⟨a, b⟩
    · left; rw [a, b]; exact ⟨hf.waits, hf.waitExp⟩
    · right; left; rw [a, b, hf.waits, hf.waitExp]; exact ⟨rfl, rfl⟩
  | start hp => exact Or.inl ⟨rfl, rfl⟩
  | startCancelled hp => exact Or.inl ⟨rfl, rfl⟩
  | startCancelledDeaf hp => exact Or.inl ⟨rfl, rfl⟩
  | dialOkCancelled i hp _ _ _ hc hph hw he => exact Or.inl ⟨hw, he⟩
  | dialFailCancelled hp => exact Or.inl ⟨rfl, rfl⟩
  | cancelDeaf => exact Or.inl ⟨rfl, rfl⟩
  | waitElapsed hp => exact Or.inl ⟨rfl, rfl⟩
  | cancel _ _ _ hc hph hup hw he => exact Or.inl ⟨hw, he⟩
  | dialOk i hp _ hc hph hw he hd hs => exact Or.inl ⟨hw, he⟩
  | dialFail hp => exact Or.inr (Or.inl ⟨rfl, rfl⟩)
  | dialFailStopped hp => exact Or.inl ⟨rfl, rfl⟩
  | connOkStopped sp inb k hp _ _ hc hph hw he => exact Or.inr (Or.inr (Or.inl ⟨hw, he⟩))
  | connFailStopped _ hev k hp _ _ hc hph hw he => exact Or.inl ⟨hw, he⟩
  | connOk sp inb k hp _ w1 hc hph hw he hd hs =>
    rcases loopReact_waits w1 with ⟨a, b⟩ | ⟨a, b⟩
    · right; right; left; rw [a, b]; exact ⟨hw, he⟩
    · right; right; right; rw [a, b, hw, he]; exact ⟨rfl, rfl⟩
  | connFail _ hev k hp _ _ hc hdead hph hw he hd hs => exact Or.inr (Or.inl ⟨hw, he⟩)
  | disc hs0 w1 hc hph hw he hd hs =>
    show ((loopReact w1).waits = _ ∧ (loopReact w1).waitExp = _) ∨ ((loopReact w1).waits = _ ∧ (loopReact w1).waitExp = _) ∨
      ((loopReact w1).waits = _ ∧ (loopReact w1).waitExp = _) ∨ ((loopReact w1).waits = _ ∧ (loopReact w1).waitExp = _)
    rcases loopReact_waits w1 with ⟨a, b⟩ | ⟨a, b⟩
    · left; rw [a, b]; exact ⟨hw, he⟩
    · right; left; rw [a, b, hw, he]; exact ⟨rfl, rfl⟩

/-! #### (4) after Disconnect -/

/-- how many more dials a STOPPED loop can still make from a phase: one from `.idle` (the Go loop
    dials before it first looks at `disconnected`) and one from `.backoff` (a stopped loop is never
    found there, see `SInv`: Disconnect releases the back-off select), none otherwise -/
def dialBudget : Phase → Nat
  | .idle => 1
  | .backoff => 1
  | _ => 0

/-- how many more connections a STOPPED loop can still create: one if a dial is or will be in flight -/
def connBudget : Phase → Nat
  | .idle => 1
  | .backoff => 1
  | .dialGate => 1
  | _ => 0

theorem budget_cancel (p : Phase) :
    dialBudget (cancelPhase p) ≤ dialBudget p ∧ connBudget (cancelPhase p) ≤ connBudget p := by
  cases p <;> simp [cancelPhase, dialBudget, connBudget]

theorem stopped_loopReact {w : World} (h : w.stopped = true) :
    (loopReact w).dials = w.dials ∧ dialBudget (loopReact w).phase ≤ dialBudget w.phase ∧
      connBudget (loopReact w).phase ≤ connBudget w.phase := by
  rcases loopReact_cases w with ⟨e, _⟩ | ⟨k, hk, hd, _, e⟩ | ⟨k, hk, hd, hs, e⟩
  · rw [e]; exact ⟨rfl, Nat.le_refl _, Nat.le_refl _⟩
  · rw [e]; exact ⟨rfl, Nat.zero_le _, Nat.zero_le _⟩
  · rw [h] at hs; cases hs

/-- Once `stopped`, every step keeps it, never lowers `dials` / the number of connections, and the
    potentials `dials + dialBudget phase`, `conns.length + connBudget phase` never grow. -/
theorem stopped_shape {w w' : World} {ev : Ev} (h : w.stopped = true) (hs : Shape w ev w') :
    w'.stopped = true ∧ w.dials ≤ w'.dials ∧ w.conns.length ≤ w'.conns.length ∧
      w'.dials + dialBudget w'.phase ≤ w.dials + dialBudget w.phase ∧
      w'.conns.length + connBudget w'.phase ≤ w.conns.length + connBudget w.phase := by
  cases hs with
  | frame _ _ hf =>
    refine ⟨hf.stopped.trans h, ?_, ?_, ?_, ?_⟩
    · rw [hf.dials]; exact Nat.le_refl _
    · rw [hf.length]; exact Nat.le_refl _
    · rw [hf.dials, hf.phase]; exact Nat.le_refl _
    · rw [hf.length, hf.phase]; exact Nat.le_refl _
  | react _ w1 hf =>
    have h1 : w1.stopped = true := hf.stopped.trans h
    obtain ⟨a, b, c⟩ := stopped_loopReact h1
    rw [hf.phase] at b c
    refine ⟨by rw [loopReact_stopped]; exact h1, ?_, ?_, ?_, ?_⟩
    · rw [a, hf.dials]; exact Nat.le_refl _
    · rw [loopReact_conns, hf.length]; exact Nat.le_refl _
    · rw [a, hf.dials]; omega
    · rw [loopReact_conns, hf.length]; omega
  | start hp =>
    refine ⟨h, Nat.le_succ _, Nat.le_refl _, ?_, ?_⟩
    · rw [hp]; exact Nat.le_refl _
    · rw [hp]; exact Nat.le_refl _
  | startCancelled hp =>
    refine ⟨h, Nat.le_succ _, Nat.le_refl _, ?_, ?_⟩
    · rw [hp]; exact Nat.le_refl _
    · rw [hp]; show w.conns.length + 0 ≤ _; omega
  | startCancelledDeaf hp =>
    refine ⟨h, Nat.le_succ _, Nat.le_refl _, ?_, ?_⟩
    · rw [hp]; exact Nat.le_refl _
    · rw [hp]; exact Nat.le_refl _
  | dialOkCancelled i hp _ _ _ hc hph hw he hd hs =>
    have hl : w'.conns.length = w.conns.length + 1 := by rw [hc.1]; simp
    refine ⟨hs.trans h, by rw [hd]; exact Nat.le_refl _, by omega, ?_, ?_⟩
    · rw [hd, hph, hp]; exact Nat.le_refl _
    · rw [hl, hph, hp]; simp [connBudget]
  | dialFailCancelled hp hs0 => rw [h] at hs0; cases hs0
  | cancelDeaf =>
    exact ⟨h, Nat.le_refl _, Nat.le_refl _, Nat.le_refl _, Nat.le_refl _⟩
  | waitElapsed hp =>
    refine ⟨h, Nat.le_succ _, Nat.le_refl _, ?_, ?_⟩
    · rw [hp]; exact Nat.le_refl _
    · rw [hp]; exact Nat.le_refl _
  | dialOk i hp _ hc hph hw he hd hs =>
    refine ⟨hs.trans h, by rw [hd]; exact Nat.le_refl _, by rw [hc]; simp, ?_, ?_⟩
    · rw [hd, hph, hp]; exact Nat.le_refl _
    · rw [hc, hph, hp]; simp [connBudget]
  | dialFail hp hs0 => rw [h] at hs0; cases hs0
  | dialFailStopped hp =>
    refine ⟨h, Nat.le_refl _, Nat.le_refl _, ?_, ?_⟩
    · show w.dials + 0 ≤ _; omega
    · show w.conns.length + 0 ≤ _; omega
  | connOk sp inb k hp hs0 => rw [h] at hs0; cases hs0
  | connOkStopped sp inb k hp _ _ hc hph hw he hd hs =>
    refine ⟨hs.trans h, by rw [hd]; exact Nat.le_refl _, by rw [hc.1]; exact Nat.le_refl _, ?_, ?_⟩
    · rw [hd, hph]; show w.dials + 0 ≤ _; omega
    · rw [hc.1, hph]; show w.conns.length + 0 ≤ _; omega
  | connFail _ hev k hp hs0 => rw [h] at hs0; cases hs0
  | connFailStopped _ hev k hp _ _ hc hph hw he hd hs =>
    refine ⟨hs.trans h, by rw [hd]; exact Nat.le_refl _, by rw [hc.1]; exact Nat.le_refl _, ?_, ?_⟩
    · rw [hd, hph]; show w.dials + 0 ≤ _; omega
    · rw [hc.1, hph]; show w.conns.length + 0 ≤ _; omega
  | disc hs0 => rw [h] at hs0; cases hs0
  | cancel _ _ _ hc hph hup hw he hd hs =>
    obtain ⟨b1, b2⟩ := budget_cancel w.phase
    refine ⟨hs.trans h, by rw [hd]; exact Nat.le_refl _, by rw [hc.1]; exact Nat.le_refl _, ?_, ?_⟩
    · rw [hd, hph]; omega
    · rw [hc.1, hph]; omega

theorem stopped_foldl (evs : List Ev) (w : World) (h : w.stopped = true) :
    (evs.foldl step w).stopped = true ∧ w.dials ≤ (evs.foldl step w).dials ∧
      w.conns.length ≤ (evs.foldl step w).conns.length ∧
      (evs.foldl step w).dials + dialBudget (evs.foldl step w).phase ≤ w.dials + dialBudget w.phase ∧
      (evs.foldl step w).conns.length + connBudget (evs.foldl step w).phase
        ≤ w.conns.length + connBudget w.phase := by
  induction evs generalizing w with
  | nil => exact ⟨h, Nat.le_refl _, Nat.le_refl _, Nat.le_refl _, Nat.le_refl _⟩
  | cons e evs ih =>
    obtain ⟨h1, h2, h3, h4, h5⟩ := stopped_shape h (step_shape w e)
    obtain ⟨i1, i2, i3, i4, i5⟩ := ih _ h1
    exact ⟨i1, Nat.le_trans h2 i2, Nat.le_trans h3 i3, Nat.le_trans i4 h4, Nat.le_trans i5 h5⟩

/-- `.exited` is absorbing, whatever else holds -/
theorem exited_shape {w w' : World} {ev : Ev} (h : w.phase = .exited) (hs : Shape w ev w') :
    w'.phase = .exited ∧ w'.dials = w.dials ∧ w'.conns.length = w.conns.length := by
  have hlr : ∀ w1 : World, w1.phase = .exited → loopReact w1 = w1 :=
    fun w1 h1 => loopReact_of_not_up w1 (by intro k; rw [h1]; simp)
  cases hs with
  | frame _ _ hf => exact ⟨hf.phase.trans h, hf.dials, hf.length⟩
  | react _ w1 hf =>
    rw [hlr w1 (hf.phase.trans h)]
    exact ⟨hf.phase.trans h, hf.dials, hf.length⟩
  | start hp => rw [h] at hp; cases hp
  | startCancelled hp => rw [h] at hp; cases hp
  | startCancelledDeaf hp => rw [h] at hp; cases hp
  | dialOkCancelled i hp => rw [h] at hp; cases hp
  | dialFailCancelled hp => rw [h] at hp; cases hp
  | cancelDeaf _ _ hp => rw [h] at hp; cases hp
  | waitElapsed hp => rw [h] at hp; cases hp
  | cancel _ _ _ hc hph hup hw he hd => exact ⟨by rw [hph, h]; rfl, hd, hc.1⟩
  | dialOk i hp => rw [h] at hp; cases hp
  | dialFail hp => rw [h] at hp; cases hp
  | dialFailStopped hp => rw [h] at hp; cases hp
  | connOk sp inb k hp => rw [h] at hp; cases hp
  | connOkStopped sp inb k hp => rw [h] at hp; cases hp
  | connFail _ hev' k hp => rw [h] at hp; cases hp
  | connFailStopped _ hev' k hp => rw [h] at hp; cases hp
  | disc hs0 w1 hc hph hw he hd hs =>
    rw [hlr w1 (hph.trans h)]
    refine ⟨?_, hd, hc.1⟩
    show discPhase w1.phase = .exited
    rw [hph, h]; rfl

theorem exited_foldl (evs : List Ev) (w : World) (h : w.phase = .exited) :
    (evs.foldl step w).phase = .exited ∧ (evs.foldl step w).dials = w.dials ∧
      (evs.foldl step w).conns.length = w.conns.length := by
  induction evs generalizing w with
  | nil => exact ⟨h, rfl, rfl⟩
  | cons e evs ih =>
    obtain ⟨h1, h2, h3⟩ := exited_shape h (step_shape w e)
    obtain ⟨i1, i2, i3⟩ := ih _ h1
    exact ⟨i1, i2.trans h2, i3.trans h3⟩

/-- before `ReconnectClient.Connect` nothing happens to the loop -/
theorem idle_shape {w w' : World} {ev : Ev} (h : w.phase = .idle) (hev : ev ≠ .start) (hs : Shape w ev w') :
    w'.phase = .idle ∧ w'.dials = w.dials ∧ w'.conns.length = w.conns.length := by
  have hlr : ∀ w1 : World, w1.phase = .idle → loopReact w1 = w1 :=
    fun w1 h1 => loopReact_of_not_up w1 (by intro k; rw [h1]; simp)
  cases hs with
  | frame _ _ hf => exact ⟨hf.phase.trans h, hf.dials, hf.length⟩
  | react _ w1 hf =>
    rw [hlr w1 (hf.phase.trans h)]
    exact ⟨hf.phase.trans h, hf.dials, hf.length⟩
  | start hp => exact absurd rfl hev
  | startCancelled hp => exact absurd rfl hev
  | startCancelledDeaf hp => exact absurd rfl hev
  | dialOkCancelled i hp => rw [h] at hp; cases hp
  | dialFailCancelled hp => rw [h] at hp; cases hp
  | cancelDeaf _ _ hp => rw [h] at hp; cases hp
  | waitElapsed hp => rw [h] at hp; cases hp
  | cancel _ _ _ hc hph hup hw he hd => exact ⟨by rw [hph, h]; rfl, hd, hc.1⟩
  | dialOk i hp => rw [h] at hp; cases hp
  | dialFail hp => rw [h] at hp; cases hp
  | dialFailStopped hp => rw [h] at hp; cases hp
  | connOk sp inb k hp => rw [h] at hp; cases hp
  | connOkStopped sp inb k hp => rw [h] at hp; cases hp
  | connFail _ hev' k hp => rw [h] at hp; cases hp
  | connFailStopped _ hev' k hp => rw [h] at hp; cases hp
  | disc hs0 w1 hc hph hw he hd hs =>
    rw [hlr w1 (hph.trans h)]
    refine ⟨?_, hd, hc.1⟩
    show discPhase w1.phase = .idle
    rw [hph, h]; rfl

theorem idle_foldl (evs : List Ev) (hev : ∀ e ∈ evs, e ≠ .start) (w : World) (h : w.phase = .idle) :
    (evs.foldl step w).phase = .idle ∧ (evs.foldl step w).dials = w.dials ∧
      (evs.foldl step w).conns.length = w.conns.length := by
  induction evs generalizing w with
  | nil => exact ⟨h, rfl, rfl⟩
  | cons e evs ih =>
    obtain ⟨h1, h2, h3⟩ := idle_shape h (hev e (by simp)) (step_shape w e)
    obtain ⟨i1, i2, i3⟩ := ih (fun e' he' => hev e' (by simp [he'])) _ h1
    exact ⟨i1, i2.trans h2, i3.trans h3⟩

/-- `Disconnect` on a client that is not stopped yet: the loop state afterwards -/
theorem disconnect_spec (w : World) (hs : w.stopped = false) :
    (step w .disconnect).stopped = true ∧ (step w .disconnect).phase = discPhase w.phase ∧
      (step w .disconnect).dials = w.dials ∧ (step w .disconnect).conns.length = w.conns.length := by
  rw [step_disconnect, if_neg (by simp [hs])]
  have h0 : Frame w (pushTask w .disconnect) := (Frame.refl w).upd rfl rfl
  have hf := frame_runTasks
    (({ pushTask w .disconnect with stopped := true } : World).taskQ.length + 1)
    { pushTask w .disconnect with stopped := true }
  unfold progress
  generalize runTasks _ _ = w1 at hf
  have hc : ConnsExt w.conns w1.conns := h0.1.trans hf.1
  have hph : w1.phase = w.phase := hf.phase.trans h0.phase
  have hd : w1.dials = w.dials := hf.dials.trans h0.dials
  have hs1 : w1.stopped = true := hf.stopped.trans rfl
  show (loopReact w1).stopped = true ∧ discPhase (loopReact w1).phase = _ ∧ (loopReact w1).dials = _ ∧
    (loopReact w1).conns.length = _
  rw [loopReact_stopped, loopReact_conns]
  refine ⟨hs1, ?_, ?_, hc.1⟩
  · rcases loopReact_cases w1 with ⟨e, _⟩ | ⟨k, hk, _, _, e⟩ | ⟨k, hk, _, hs2, e⟩
    · rw [e, hph]
    · rw [e, ← hph, hk]; rfl
    · rw [hs1] at hs2; cases hs2
  · rcases loopReact_cases w1 with ⟨e, _⟩ | ⟨k, hk, _, _, e⟩ | ⟨k, hk, _, hs2, e⟩
    · rw [e, hd]
    · rw [e]; exact hd
    · rw [hs1] at hs2; cases hs2

/-! #### the loop never rests on a dead connection -/

theorem discPhase_ne_up (p : Phase) (k : Nat) : discPhase p ≠ .up k := by
  cases p <;> simp [discPhase]

/-- in `.up k` connection `k` is alive: as soon as it has ended the loop has already reacted -/
def UInv (w : World) : Prop := ∀ k, w.phase = .up k → (getConn w k).alive = true

theorem UInv.shape {w w' : World} {ev : Ev} (h : UInv w) (hs : Shape w ev w') : UInv w' := by
  have hlr : ∀ w1 : World, UInv (loopReact w1) := by
    intro w1
    rcases loopReact_cases w1 with ⟨e, ha⟩ | ⟨k, _, _, _, e⟩ | ⟨k, _, _, _, e⟩
    · rw [e]; exact ha
    · rw [e]; intro k' hk'; cases hk'
    · rw [e]; intro k' hk'; cases hk'
  cases hs with
  | frame _ _ hf ha => intro k hk; rw [ha k]; exact h k (hf.phase ▸ hk)
  | react _ w1 hf => exact hlr w1
  | start hp => intro k hk; cases hk
  | startCancelled hp => intro k hk; cases hk
  | startCancelledDeaf hp => intro k hk; cases hk
  | dialOkCancelled i hp _ _ _ hc hph => intro k hk; rw [hph] at hk; cases hk
  | dialFailCancelled hp => intro k hk; cases hk
  | cancelDeaf _ _ hp => intro k hk; rw [show w.phase = .dialGate from hp] at hk; cases hk
  | waitElapsed hp => intro k hk; cases hk
  | cancel _ _ _ hc hph hup =>
    intro k hk
    rw [hph] at hk
    have hp : w.phase = .up k := by
      cases hq : w.phase <;> rw [hq] at hk <;> simp [cancelPhase] at hk
      rw [hk]
    rw [hup k hp k]; exact h k hp
  | dialOk i hp _ hc hph => intro k hk; rw [hph] at hk; cases hk
  | dialFail hp => intro k hk; cases hk
  | dialFailStopped hp => intro k hk; cases hk
  | connOk sp inb k hp _ w1 => exact hlr w1
  | connOkStopped sp inb k hp _ _ hc hph => intro k hk; rw [hph] at hk; cases hk
  | connFail _ hev k hp _ _ hc hdead hph => intro k hk; rw [hph] at hk; cases hk
  | connFailStopped _ hev k hp _ _ hc hph => intro k hk; rw [hph] at hk; cases hk
  | disc hs0 w1 => intro k hk; exact absurd hk (discPhase_ne_up _ k)

theorem UInv.exec (s : Script) : UInv (exec s) :=
  exec_inv UInv (fun s k hk => by simp [init] at hk) (fun w ev h => h.shape (step_shape w ev)) s

/-! #### a stopped loop is never found waiting to redial -/

/-- Disconnect releases the back-off select and every failure observed after Disconnect ends the loop -/
def SInv (w : World) : Prop := w.stopped = true → w.phase ≠ .backoff

theorem SInv.loopReact {w : World} (h : SInv w) : SInv (loopReact w) := by
  intro hs
  rw [loopReact_stopped] at hs
  rcases loopReact_cases w with ⟨e, _⟩ | ⟨k, hk, _, _, e⟩ | ⟨k, hk, _, hs2, e⟩
  · rw [e]; exact h hs
  · rw [e]; simp
  · rw [hs] at hs2; cases hs2

theorem discPhase_ne_backoff (p : Phase) : discPhase p ≠ .backoff := by
  cases p <;> simp [discPhase]

theorem cancelPhase_ne_backoff (p : Phase) : cancelPhase p ≠ .backoff := by
  cases p <;> simp [cancelPhase]

theorem SInv.shape {w w' : World} {ev : Ev} (h : SInv w) (hs : Shape w ev w') : SInv w' := by
  cases hs with
  | frame _ _ hf => intro hs; rw [hf.phase]; exact h (hf.stopped ▸ hs)
  | react _ w1 hf =>
    apply SInv.loopReact
    intro hs; rw [hf.phase]; exact h (hf.stopped ▸ hs)
  | start hp => intro _; simp
  | startCancelled hp => intro _; simp
  | startCancelledDeaf hp => intro _; simp
  | dialOkCancelled i hp _ _ _ hc hph => intro _; rw [hph]; simp
  | dialFailCancelled hp => intro _; simp
  | cancelDeaf _ _ hp => intro _; rw [show w.phase = .dialGate from hp]; simp
  | dialOk i hp _ hc hph => intro _; rw [hph]; simp
  | dialFail hp hs0 => intro hs; rw [show w.stopped = true from hs] at hs0; cases hs0
  | dialFailStopped hp => intro _; simp
  | waitElapsed hp => intro _; simp
  | connOk sp inb k hp _ w1 hc hph =>
    apply SInv.loopReact
    intro _; rw [hph]; simp
  | connOkStopped sp inb k hp _ _ hc hph => intro _; rw [hph]; simp
  | connFail _ hev k hp hs0 _ hc hdead hph hw he hd hs => intro hs'; rw [hs, hs0] at hs'; cases hs'
  | connFailStopped _ hev k hp _ _ hc hph => intro _; rw [hph]; simp
  | disc hs0 w1 => intro _; exact discPhase_ne_backoff _
  | cancel _ _ _ hc hph => intro _; rw [hph]; exact cancelPhase_ne_backoff _

theorem SInv.exec (s : Script) : SInv (exec s) :=
  exec_inv SInv (fun s hs => by simp [init] at hs) (fun w ev h => h.shape (step_shape w ev)) s

/-! #### every dial is preceded by its wait -/

/-- the relation between the phase, the number of DialContext calls and the number of logged waits:
    the first dial needs no wait, every later one consumes exactly one logged wait (at `.waitElapsed`);
    in `.backoff` the last logged wait is still running -/
def DRel : Phase → Nat → Nat → Prop
  | .idle, d, n => d = 0 ∧ n = 0
  | .backoff, d, n => d = n ∧ 1 ≤ d
  | .exited, d, n => n ≤ d ∧ d ≤ n + 1 ∧ 1 ≤ d
  | _, d, n => d = n + 1

def DInv (w : World) : Prop := DRel w.phase w.dials w.waits.length

theorem DRel.disc {p : Phase} {d n : Nat} (h : DRel p d n) : DRel (discPhase p) d n := by
  cases p <;> simp [DRel, discPhase] at h ⊢ <;> omega

theorem DRel.cancel {p : Phase} {d n : Nat} (h : DRel p d n) : DRel (cancelPhase p) d n := by
  cases p <;> simp [DRel, cancelPhase] at h ⊢ <;> omega

theorem DInv.loopReact {w : World} (h : DInv w) : DInv (loopReact w) := by
  rcases loopReact_cases w with ⟨e, _⟩ | ⟨k, hk, _, _, e⟩ | ⟨k, hk, _, _, e⟩
  · rw [e]; exact h
  · rw [e]; unfold DInv at h ⊢; rw [hk] at h; simp [DRel] at h ⊢; omega
  · rw [e]; unfold DInv at h ⊢; rw [hk] at h; simp [DRel] at h ⊢; omega

theorem DInv.shape {w w' : World} {ev : Ev} (h : DInv w) (hs : Shape w ev w') : DInv w' := by
  cases hs with
  | frame _ _ hf => unfold DInv; rw [hf.phase, hf.dials, hf.waits]; exact h
  | react _ w1 hf =>
    apply DInv.loopReact
    unfold DInv; rw [hf.phase, hf.dials, hf.waits]; exact h
  | start hp =>
    unfold DInv at h ⊢; rw [hp] at h
    obtain ⟨a, b⟩ := h
    show w.dials + 1 = w.waits.length + 1
    rw [a, b]
  | startCancelled hp =>
    unfold DInv at h ⊢; rw [hp] at h
    obtain ⟨a, b⟩ := h
    show w.waits.length ≤ w.dials + 1 ∧ w.dials + 1 ≤ w.waits.length + 1 ∧ 1 ≤ w.dials + 1
    rw [a, b]; exact ⟨by omega, by omega, by omega⟩
  | startCancelledDeaf hp =>
    unfold DInv at h ⊢; rw [hp] at h
    obtain ⟨a, b⟩ := h
    show w.dials + 1 = w.waits.length + 1
    rw [a, b]
  | dialOkCancelled i hp _ _ _ hc hph hw he hd hs =>
    unfold DInv at h ⊢; rw [hp] at h; rw [hph, hd, hw]; simp [DRel] at h ⊢; omega
  | dialFailCancelled hp => unfold DInv at h ⊢; rw [hp] at h; simp [DRel] at h ⊢; omega
  | cancelDeaf => exact h
  | dialOk i hp _ hc hph hw he hd hs =>
    unfold DInv at h ⊢; rw [hp] at h; rw [hph, hd, hw]; simpa [DRel] using h
  | dialFail hp hs0 => unfold DInv at h ⊢; rw [hp] at h; simp [DRel] at h ⊢; omega
  | dialFailStopped hp => unfold DInv at h ⊢; rw [hp] at h; simp [DRel] at h ⊢; omega
  | waitElapsed hp => unfold DInv at h ⊢; rw [hp] at h; simp [DRel] at h ⊢; omega
  | connOk sp inb k hp _ w1 hc hph hw he hd hs =>
    apply DInv.loopReact
    unfold DInv at h ⊢; rw [hp] at h; rw [hph, hd, hw]; simpa [DRel] using h
  | connOkStopped sp inb k hp _ _ hc hph hw he hd hs =>
    unfold DInv at h ⊢; rw [hp] at h; rw [hph, hd, hw]; simp [DRel] at h ⊢; omega
  | connFail _ hev k hp _ _ hc hdead hph hw he hd hs =>
    unfold DInv at h ⊢; rw [hp] at h; rw [hph, hd, hw]; simp [DRel] at h ⊢; omega
  | connFailStopped _ hev k hp _ _ hc hph hw he hd hs =>
    unfold DInv at h ⊢; rw [hp] at h; rw [hph, hd, hw]; simp [DRel] at h ⊢; omega
  | disc hs0 w1 hc hph hw he hd hs =>
    have h1 : DInv w1 := by unfold DInv; rw [hph, hd, hw]; exact h
    exact DRel.disc (DInv.loopReact h1)
  | cancel _ _ _ hc hph hup hw he hd hs =>
    unfold DInv; rw [hph, hd, hw]; exact DRel.cancel h

theorem DInv.exec (s : Script) : DInv (exec s) :=
  exec_inv DInv (fun s => by simp [DInv, DRel, init]) (fun w ev h => h.shape (step_shape w ev)) s

/-- one step makes at most one dial, and only `.start` (from `.idle`) or `.waitElapsed` (from `.backoff`) do -/
theorem shape_dials {w w' : World} {ev : Ev} (hs : Shape w ev w') :
    w'.dials = w.dials ∨
    (w'.dials = w.dials + 1 ∧ ((ev = .start ∧ w.phase = .idle) ∨ (ev = .waitElapsed ∧ w.phase = .backoff))) := by
  cases hs with
  | frame _ _ hf => exact Or.inl hf.dials
  | react _ w1 hf => left; rw [loopReact_dials]; exact hf.dials
  | start hp => exact Or.inr ⟨rfl, Or.inl ⟨rfl, hp⟩⟩
  | startCancelled hp => exact Or.inr ⟨rfl, Or.inl ⟨rfl, hp⟩⟩
  | startCancelledDeaf hp => exact Or.inr ⟨rfl, Or.inl ⟨rfl, hp⟩⟩
  | dialOkCancelled i hp _ _ _ hc hph hw he hd hs => exact Or.inl hd
  | dialFailCancelled hp => exact Or.inl rfl
  | cancelDeaf => exact Or.inl rfl
  | dialOk i hp _ hc hph hw he hd hs => exact Or.inl hd
  | dialFail hp hs0 => exact Or.inl rfl
  | dialFailStopped hp => exact Or.inl rfl
  | waitElapsed hp => exact Or.inr ⟨rfl, Or.inr ⟨rfl, hp⟩⟩
  | connOk sp inb k hp _ w1 hc hph hw he hd hs => left; rw [loopReact_dials]; exact hd
  | connOkStopped sp inb k hp _ _ hc hph hw he hd hs => exact Or.inl hd
  | connFail _ hev k hp _ _ hc hdead hph hw he hd hs => exact Or.inl hd
  | connFailStopped _ hev k hp _ _ hc hph hw he hd hs => exact Or.inl hd
  | disc hs0 w1 hc hph hw he hd hs =>
    left; show (loopReact w1).dials = _; rw [loopReact_dials]; exact hd
  | cancel _ _ _ hc hph hup hw he hd hs => exact Or.inl hd

/-- `.idle` is never entered again -/
theorem shape_not_idle {w w' : World} {ev : Ev} (h : w.phase ≠ .idle) (hs : Shape w ev w') : w'.phase ≠ .idle := by
  have hlr : ∀ w1 : World, w1.phase ≠ .idle → (loopReact w1).phase ≠ .idle := by
    intro w1 h1
    rcases loopReact_cases w1 with ⟨e, _⟩ | ⟨k, _, _, _, e⟩ | ⟨k, _, _, _, e⟩
    · rw [e]; exact h1
    · rw [e]; simp
    · rw [e]; simp
  cases hs with
  | frame _ _ hf => rw [hf.phase]; exact h
  | react _ w1 hf => exact hlr w1 (by rw [hf.phase]; exact h)
  | start hp => simp
  | startCancelled hp => simp
  | startCancelledDeaf hp => simp
  | dialOkCancelled i hp _ _ _ hc hph => rw [hph]; simp
  | dialFailCancelled hp => simp
  | cancelDeaf => exact h
  | dialOk i hp _ hc hph => rw [hph]; simp
  | dialFail hp hs0 => simp
  | dialFailStopped hp => simp
  | waitElapsed hp => simp
  | connOk sp inb k hp _ w1 hc hph => exact hlr w1 (by rw [hph]; simp)
  | connOkStopped sp inb k hp _ _ hc hph => rw [hph]; simp
  | connFail _ hev k hp _ _ hc hdead hph => rw [hph]; simp
  | connFailStopped _ hev k hp _ _ hc hph => rw [hph]; simp
  | disc hs0 w1 hc hph =>
    have := hlr w1 (by rw [hph]; exact h)
    show discPhase (loopReact w1).phase ≠ .idle
    cases hq : (loopReact w1).phase <;> simp [discPhase]
    exact this hq
  | cancel _ _ _ hc hph =>
    rw [hph]
    cases hq : w.phase <;> simp [cancelPhase]
    exact h hq

/-! #### what `ReconnectClient.Connect` returned, and its context -/

theorem ctxSt_eq {w w' : World} (h : ctxSt w' = ctxSt w) :
    w'.connectReturned = w.connectReturned ∧ w'.ctxCancelled = w.ctxCancelled ∧ w'.connectErr = w.connectErr := by
  unfold ctxSt at h
  injection h with a h
  injection h with b c
  exact ⟨a, b, c⟩

theorem ctxSt_eq' {w' : World} {a : Option Bool} {b c : Bool} (h : ctxSt w' = (a, b, c)) :
    w'.connectReturned = a ∧ w'.ctxCancelled = b ∧ w'.connectErr = c := by
  unfold ctxSt at h
  injection h with a h
  injection h with b c
  exact ⟨a, b, c⟩

/-- the outcome of Connect is never revoked: an error stays, a cancelled context stays cancelled, a
    returned session-present flag stays -/
def CtxMono (w w' : World) : Prop :=
  (w.connectErr = true → w'.connectErr = true) ∧ (w.ctxCancelled = true → w'.ctxCancelled = true) ∧
    (w.connectReturned.isSome = true → w'.connectReturned = w.connectReturned)

theorem CtxMono.of_eq {w w' : World} (h : ctxSt w' = ctxSt w) : CtxMono w w' := by
  obtain ⟨a, b, c⟩ := ctxSt_eq h
  exact ⟨fun h => c ▸ h, fun h => b ▸ h, fun _ => a⟩

theorem CtxMono.refl (w : World) : CtxMono w w := CtxMono.of_eq rfl

theorem CtxMono.trans {a b c : World} (h1 : CtxMono a b) (h2 : CtxMono b c) : CtxMono a c :=
  ⟨fun h => h2.1 (h1.1 h), fun h => h2.2.1 (h1.2.1 h),
   fun h => by
     have e1 := h1.2.2 h
     have : b.connectReturned.isSome = true := by rw [e1]; exact h
     rw [h2.2.2 this, e1]⟩

theorem CtxMono.connOk {w w1 : World} {sp : Bool}
    (hx : ctxSt w1 = (if w.connectReturned.isNone then some sp else w.connectReturned, w.ctxCancelled, w.connectErr)) :
    CtxMono w w1 := by
  obtain ⟨a, b, c⟩ := ctxSt_eq' hx
  refine ⟨fun h => c ▸ h, fun h => b ▸ h, fun h => ?_⟩
  rw [a]
  cases hq : w.connectReturned with
  | none => rw [hq] at h; cases h
  | some v => rfl

theorem shape_ctxMono {w w' : World} {ev : Ev} (hs : Shape w ev w') : CtxMono w w' := by
  cases hs with
  | frame _ _ hf => exact CtxMono.of_eq hf.ctx
  | react _ w1 hf => exact CtxMono.of_eq ((loopReact_ctx w1).trans hf.ctx)
  | start hp => exact CtxMono.refl _
  | startCancelled hp => exact ⟨fun _ => rfl, id, fun _ => rfl⟩
  | startCancelledDeaf hp => exact ⟨fun _ => rfl, id, fun _ => rfl⟩
  | dialOkCancelled i hp _ _ _ hc hph hw he hd hs hx => exact CtxMono.of_eq hx
  | dialFailCancelled hp => exact CtxMono.refl _
  | cancelDeaf => exact ⟨fun _ => rfl, fun _ => rfl, fun _ => rfl⟩
  | dialOk i hp _ hc hph hw he hd hs hx => exact CtxMono.of_eq hx
  | dialFail hp hs0 => exact CtxMono.refl _
  | dialFailStopped hp => exact CtxMono.refl _
  | waitElapsed hp => exact CtxMono.refl _
  | connOk sp inb k hp _ w1 hc hph hw he hd hs hx =>
    exact (CtxMono.connOk hx).trans (CtxMono.of_eq (loopReact_ctx w1))
  | connOkStopped sp inb k hp _ _ hc hph hw he hd hs hx => exact CtxMono.connOk hx
  | connFail _ hev k hp _ _ hc hdead hph hw he hd hs hx => exact CtxMono.of_eq hx
  | connFailStopped _ hev k hp _ _ hc hph hw he hd hs hx => exact CtxMono.of_eq hx
  | disc hs0 w1 hc hph hw he hd hs hx => exact CtxMono.of_eq ((loopReact_ctx w1).trans hx)
  | cancel hcc0 hcr0 _ hc hph hup hw he hd hs hx =>
    obtain ⟨a, b, c⟩ := ctxSt_eq' hx
    refine ⟨fun h => ?_, fun _ => b, fun h => ?_⟩
    · rw [c, h]; cases w.phase <;> rfl
    · rw [hcr0] at h; cases h

theorem ctxMono_foldl (evs : List Ev) (w : World) : CtxMono w (evs.foldl step w) := by
  induction evs generalizing w with
  | nil => exact CtxMono.refl _
  | cons e evs ih => exact (shape_ctxMono (step_shape w e)).trans (ih _)

/-! the configuration never changes -/

theorem shape_cfg {w w' : World} {ev : Ev} (hs : Shape w ev w') : w'.cfg = w.cfg := by
  cases hs with
  | frame _ _ hf => exact hf.cfg
  | react _ w1 hf => exact (loopReact_cfg w1).trans hf.cfg
  | start => rfl
  | startCancelled => rfl
  | startCancelledDeaf => rfl
  | dialOk i hp _ hc hph hw he hd hs hx hcfg => exact hcfg
  | dialOkCancelled i hp _ _ _ hc hph hw he hd hs hx hcfg => exact hcfg
  | dialFail => rfl
  | dialFailCancelled => rfl
  | dialFailStopped => rfl
  | waitElapsed => rfl
  | connOk sp inb k hp _ w1 hc hph hw he hd hs hx hcfg => exact (loopReact_cfg w1).trans hcfg
  | connOkStopped sp inb k hp _ _ hc hph hw he hd hs hx hcfg => exact hcfg
  | connFail _ hev k hp _ _ hc hdead hph hw he hd hs hx hcfg => exact hcfg
  | connFailStopped _ hev k hp _ _ hc hph hw he hd hs hx hcfg => exact hcfg
  | disc hs0 w1 hc hph hw he hd hs hx hcfg => exact (loopReact_cfg w1).trans hcfg
  | cancel _ _ _ hc hph hup hw he hd hs hx hcfg => exact hcfg
  | cancelDeaf => rfl

theorem step_cfg (w : World) (ev : Ev) : (step w ev).cfg = w.cfg := shape_cfg (step_shape w ev)

theorem foldl_step_cfg (evs : List Ev) (w : World) : (evs.foldl step w).cfg = w.cfg := by
  induction evs generalizing w with
  | nil => rfl
  | cons e evs ih => exact (ih _).trans (step_cfg w e)

theorem exec_cfg (s : Script) : (exec s).cfg = s.cfg := foldl_step_cfg s.evs (init s)

/-- where a loop whose `Connect` has returned the context's error can be: ended, or — only with a dialer
    that ignores its context — still inside the DialContext that was in flight when the context was
    cancelled (it ends as soon as that dial resolves: `cancelled_shape`) -/
def ErrPhase (w : World) : Prop := w.phase = .exited ∨ (w.phase = .dialGate ∧ w.cfg.deafDialer = true)

/-- Connect returns once: an error only for a cancelled context, from a loop that never connected and
    has ended (or is inside the last DialContext of a context-deaf dialer, `ErrPhase`); a loop watching a
    connection (`.up`) has returned success; and once Connect was called, a cancelled context without a
    success means that the error has been returned -/
def XInv (w : World) : Prop :=
  (w.phase = .idle → w.connectReturned = none ∧ w.connectErr = false) ∧
  (w.connectErr = true → ErrPhase w ∧ w.connectReturned = none ∧ w.ctxCancelled = true) ∧
  (∀ k, w.phase = .up k → w.connectReturned.isSome = true) ∧
  (w.ctxCancelled = true → w.connectReturned = none → w.phase ≠ .idle → w.connectErr = true)

theorem XInv.noErr {w : World} (h : XInv w) (hp : w.phase ≠ .exited) (hd : w.phase ≠ .dialGate) :
    w.connectErr = false := by
  cases hq : w.connectErr
  · rfl
  · rcases (h.2.1 hq).1 with a | ⟨a, _⟩
    · exact absurd a hp
    · exact absurd a hd

/-- no error was returned while the context of the first Connect is live (or Connect has succeeded) -/
theorem XInv.noErr_of_live {w : World} (h : XInv w)
    (hnc : ¬ (w.ctxCancelled = true ∧ w.connectReturned = none)) : w.connectErr = false := by
  cases hq : w.connectErr
  · rfl
  · obtain ⟨_, a, b⟩ := h.2.1 hq
    exact absurd ⟨b, a⟩ hnc

/-- waiting to redial, awaiting a CONNACK or connected: the context of the first Connect is live, or
    Connect has succeeded -/
theorem XInv.live {w : World} (h : XInv w) (hi : w.phase ≠ .idle) (hp : w.phase ≠ .exited)
    (hd : w.phase ≠ .dialGate) : ¬ (w.ctxCancelled = true ∧ w.connectReturned = none) := by
  intro hc
  have h1 := h.2.2.2 hc.1 hc.2 hi
  rw [h.noErr hp hd] at h1
  cases h1

/-- a cancelled first Connect: the loop has not started, has ended, or is inside the DialContext of a
    dialer that ignores its context -/
theorem XInv.cancelled_phase {w : World} (h : XInv w) (hcc : w.ctxCancelled = true)
    (hcr : w.connectReturned = none) :
    w.phase = .idle ∨ w.phase = .exited ∨ (w.phase = .dialGate ∧ w.cfg.deafDialer = true) := by
  by_cases hi : w.phase = .idle
  · exact Or.inl hi
  · exact Or.inr (h.2.1 (h.2.2.2 hcc hcr hi)).1

/-- with a context-aware dialer the two new branches of `step` (`.dialOk` / `.dialFail` in `.dialGate`
    with a cancelled first Connect) are never taken -/
theorem XInv.not_deaf {w : World} (h : XInv w) (hdf : w.cfg.deafDialer = false) :
    ¬ (w.phase = .dialGate ∧ w.ctxCancelled = true ∧ w.connectReturned = none) := by
  rintro ⟨hp, hcc, hcr⟩
  rcases h.cancelled_phase hcc hcr with a | a | ⟨_, a⟩
  · rw [hp] at a; cases a
  · rw [hp] at a; cases a
  · rw [hdf] at a; cases a

theorem XInv.transfer {w w' : World} (h : XInv w) (hp : w'.phase = w.phase) (hx : ctxSt w' = ctxSt w)
    (hcfg : w'.cfg = w.cfg) : XInv w' := by
  obtain ⟨a, b, c⟩ := ctxSt_eq hx
  unfold XInv ErrPhase
  rw [hp, a, b, c, hcfg]; exact h

/-- a step that leaves `connectErr` false, the context live (or Connect successful), and does not end
    in `.idle` / `.up` -/
theorem XInv.of_live {w' : World} (he : w'.connectErr = false) (hi : w'.phase ≠ .idle)
    (hu : ∀ k, w'.phase ≠ .up k) (hl : ¬ (w'.ctxCancelled = true ∧ w'.connectReturned = none)) : XInv w' :=
  And.intro (fun h => absurd h hi)
    (And.intro (fun h => by rw [he] at h; cases h)
      (And.intro (fun k h => absurd h (hu k)) (fun a b _ => absurd ⟨a, b⟩ hl)))

/-- a step into `.exited` that leaves Connect's outcome as it is, from a loop that had started -/
theorem XInv.to_exited {w w' : World} (h : XInv w) (hi : w.phase ≠ .idle) (hp : w'.phase = .exited)
    (hx : ctxSt w' = ctxSt w) : XInv w' := by
  obtain ⟨a, b, c⟩ := ctxSt_eq hx
  refine And.intro (by rw [hp]; simp) (And.intro (fun hq => ?_) (And.intro (by rw [hp]; simp) (fun h1 h2 _ => ?_)))
  · rw [c] at hq
    obtain ⟨_, x, y⟩ := h.2.1 hq
    exact ⟨Or.inl hp, a.trans x, b.trans y⟩
  · rw [c]; exact h.2.2.2 (b ▸ h1) (a ▸ h2) hi

theorem XInv.loopReact {w : World} (h : XInv w) : XInv (loopReact w) := by
  rcases loopReact_cases w with ⟨e, _⟩ | ⟨k, hk, _, _, e⟩ | ⟨k, hk, _, _, e⟩
  · rw [e]; exact h
  · rw [e]
    exact XInv.of_live (h.noErr (by rw [hk]; simp) (by rw [hk]; simp)) (by simp) (by simp)
      (h.live (by rw [hk]; simp) (by rw [hk]; simp) (by rw [hk]; simp))
  · rw [e]
    exact XInv.of_live (h.noErr (by rw [hk]; simp) (by rw [hk]; simp)) (by simp) (by simp)
      (h.live (by rw [hk]; simp) (by rw [hk]; simp) (by rw [hk]; simp))

/-- an accepted CONNACK: Connect has (now or before) returned success -/
theorem connOk_returned {w w1 : World} {sp : Bool}
    (hx : ctxSt w1 = (if w.connectReturned.isNone then some sp else w.connectReturned, w.ctxCancelled, w.connectErr)) :
    w1.connectReturned.isSome = true := by
  rw [(ctxSt_eq' hx).1]
  cases w.connectReturned <;> rfl

theorem XInv.shape {w w' : World} {ev : Ev} (h : XInv w) (hs : Shape w ev w') : XInv w' := by
  cases hs with
  | frame _ _ hf => exact h.transfer hf.phase hf.ctx hf.cfg
  | react _ w1 hf => exact (h.transfer hf.phase hf.ctx hf.cfg).loopReact
  | start hp hx =>
    exact XInv.of_live (h.1 hp).2 (by simp) (by simp) (fun hc => by rw [show w.ctxCancelled = false from hx] at hc; cases hc.1)
  | startCancelled hp hx =>
    exact And.intro (by simp) (And.intro (fun _ => ⟨Or.inl rfl, (h.1 hp).1, hx⟩)
      (And.intro (by simp) (fun _ _ _ => rfl)))
  | startCancelledDeaf hp hx hdf =>
    exact And.intro (by simp) (And.intro (fun _ => ⟨Or.inr ⟨rfl, hdf⟩, (h.1 hp).1, hx⟩)
      (And.intro (by simp) (fun _ _ _ => rfl)))
  | dialOk i hp _ hc hph hw he hd hs hx hcfg hnc =>
    obtain ⟨a, b, c⟩ := ctxSt_eq hx
    refine XInv.of_live ?_ (by rw [hph]; simp) (by rw [hph]; simp) (by rw [a, b]; exact hnc)
    rw [c]; exact h.noErr_of_live hnc
  | dialOkCancelled i hp _ _ _ hc hph hw he hd hs hx =>
    exact h.to_exited (by rw [hp]; simp) hph hx
  | dialFail hp hs0 hnc => exact XInv.of_live (h.noErr_of_live hnc) (by simp) (by simp) hnc
  | dialFailCancelled hp => exact h.to_exited (by rw [hp]; simp) rfl rfl
  | dialFailStopped hp => exact h.to_exited (by rw [hp]; simp) rfl rfl
  | waitElapsed hp =>
    exact XInv.of_live (h.noErr (by rw [hp]; simp) (by rw [hp]; simp)) (by simp) (by simp)
      (h.live (by rw [hp]; simp) (by rw [hp]; simp) (by rw [hp]; simp))
  | connOk sp inb k hp _ w1 hc hph hw he hd hs hx =>
    apply XInv.loopReact
    have hr := connOk_returned hx
    obtain ⟨a, b, c⟩ := ctxSt_eq' hx
    have hne : w1.connectErr = false := by rw [c]; exact h.noErr (by rw [hp]; simp) (by rw [hp]; simp)
    refine And.intro (by rw [hph]; simp) (And.intro (fun hq => by rw [hq] at hne; cases hne)
      (And.intro (fun k' _ => hr) (fun _ hn _ => by rw [hn] at hr; cases hr)))
  | connOkStopped sp inb k hp _ _ hc hph hw he hd hs hx =>
    have hr := connOk_returned hx
    refine XInv.of_live ?_ (by rw [hph]; simp) (by rw [hph]; simp) (fun hn => by rw [hn.2] at hr; cases hr)
    rw [(ctxSt_eq' hx).2.2]; exact h.noErr (by rw [hp]; simp) (by rw [hp]; simp)
  | connFail _ hev k hp _ _ hc hdead hph hw he hd hs hx =>
    obtain ⟨a, b, c⟩ := ctxSt_eq hx
    refine XInv.of_live ?_ (by rw [hph]; simp) (by rw [hph]; simp)
      (by rw [a, b]; exact h.live (by rw [hp]; simp) (by rw [hp]; simp) (by rw [hp]; simp))
    rw [c]; exact h.noErr (by rw [hp]; simp) (by rw [hp]; simp)
  | connFailStopped _ hev k hp _ _ hc hph hw he hd hs hx =>
    exact h.to_exited (by rw [hp]; simp) hph hx
  | disc hs0 w1 hc hph hw he hd hs hx hcfg =>
    obtain ⟨h1, h2, h3, h4⟩ := (h.transfer hph hx hcfg).loopReact
    refine And.intro ?_ (And.intro ?_ (And.intro ?_ ?_))
    · intro hq
      apply h1
      have hq' : discPhase (Retry.loopReact w1).phase = .idle := hq
      cases hr : (Retry.loopReact w1).phase <;> rw [hr] at hq' <;> simp [discPhase] at hq'
    · intro hq
      obtain ⟨a, b, c⟩ := h2 hq
      refine ⟨?_, b, c⟩
      rcases a with a | ⟨a, a'⟩
      · left
        show discPhase (Retry.loopReact w1).phase = .exited
        rw [a]; rfl
      · right
        refine ⟨?_, a'⟩
        show discPhase (Retry.loopReact w1).phase = .dialGate
        rw [a]; rfl
    · intro k hk; exact absurd hk (discPhase_ne_up _ k)
    · intro a b hq
      refine h4 a b ?_
      intro hr
      apply hq
      show discPhase (Retry.loopReact w1).phase = .idle
      rw [hr]; rfl
  | cancel hcc0 hcr0 _ hc hph hup hw he hd hs hx hcfg hnd =>
    obtain ⟨a, b, c⟩ := ctxSt_eq' hx
    have hnu : ∀ k, w.phase ≠ .up k := by
      intro k hp
      have := h.2.2.1 k hp
      rw [hcr0] at this; cases this
    refine And.intro ?_ (And.intro ?_ (And.intro ?_ ?_))
    · intro hq
      rw [hph] at hq
      have hp : w.phase = .idle := by
        cases hr : w.phase <;> rw [hr] at hq <;> simp [cancelPhase] at hq
      refine ⟨a, ?_⟩
      rw [c, hp]; exact (h.1 hp).2
    · intro hq
      refine ⟨Or.inl ?_, a, b⟩
      rw [c] at hq
      rw [hph]
      cases hr : w.phase with
      | idle => rw [hr] at hq; simp only [cancelErr] at hq; rw [(h.1 hr).2] at hq; cases hq
      | up k => exact absurd hr (hnu k)
      | backoff => rfl
      | dialGate => rfl
      | connackGate k => rfl
      | exited => rfl
    · intro k hk
      rw [hph] at hk
      have hp : w.phase = .up k := by
        cases hr : w.phase <;> rw [hr] at hk <;> simp [cancelPhase] at hk
        rw [hk]
      exact absurd hp (hnu k)
    · intro _ _ hq
      rw [c]
      rw [hph] at hq
      cases hr : w.phase with
      | idle => rw [hr] at hq; exact absurd rfl hq
      | up k => exact absurd hr (hnu k)
      | backoff => rfl
      | dialGate => rfl
      | connackGate k => rfl
      | exited => rfl
  | cancelDeaf hcc0 hcr0 hp hdf =>
    refine And.intro (fun hq => ?_) (And.intro (fun _ => ⟨Or.inr ⟨hp, hdf⟩, hcr0, rfl⟩)
      (And.intro (fun k hk => ?_) (fun _ _ _ => rfl)))
    · rw [show w.phase = .dialGate from hp] at hq; cases hq
    · rw [show w.phase = .dialGate from hp] at hk; cases hk

theorem XInv.exec (s : Script) : XInv (exec s) :=
  exec_inv XInv (fun s => by simp [XInv, init]) (fun w ev h => h.shape (step_shape w ev)) s

/-! #### a stopped loop leaves the dial / CONNECT attempt in flight through `.exited` -/

theorem step_disconnect_cfg (w : World) : (step w .disconnect).cfg = w.cfg := by
  rw [step_disconnect]
  split
  · rfl
  · show (progress _).cfg = _
    rw [progress_cfg]; rfl

theorem connackOk_stopped (w : World) (k : Nat) (sp : Bool) (inb : List (Nat × Nat))
    (hp : w.phase = .connackGate k) (hs : w.stopped = true) : (step w (.connackOk sp inb)).phase = .exited := by
  rw [step_connackOk]
  simp only [hp]
  have h2 := (connackOkPre_spec w k sp inb).2.1
  rw [hs] at h2
  have h2' : (connackOkPre w k sp inb).phase = .exited := h2
  rw [(progress_not_up _ (by intro k'; rw [h2']; simp)).phase]
  exact h2'

theorem connectFailed_stopped (w : World) (k : Nat) (hs : w.stopped = true) :
    (progress (connectFailed w k)).phase = .exited := by
  obtain ⟨_, _, _, _, _, hT, _⟩ := connectFailed_spec w k
  have h2 := (hT hs).1
  rw [(progress_not_up _ (by intro k'; rw [h2]; simp)).phase]
  exact h2

theorem connackRefused_stopped (w : World) (k : Nat) (hp : w.phase = .connackGate k) (hs : w.stopped = true) :
    (step w .connackRefused).phase = .exited := by
  simp only [step, hp]
  exact connectFailed_stopped w k hs

theorem connackNever_stopped (w : World) (k : Nat) (hp : w.phase = .connackGate k) (hs : w.stopped = true)
    (ht : w.cfg.connectTimeout = true) : (step w .connackNever).phase = .exited := by
  simp only [step, hp, ht, if_true]
  exact connectFailed_stopped w k hs

/-- a stopped loop with a dial or a CONNECT in flight: every event leaves it where it is, or moves it
    from the dial to the CONNECT (only `.dialOk`), or ends it — it never goes back to wait or dial -/
theorem stopped_gate_shape {w w' : World} {ev : Ev} (hst : w.stopped = true) (hs : Shape w ev w') :
    (w.phase = .dialGate → w'.phase = .dialGate ∨ w'.phase = .exited ∨
        ((∃ i, ev = .dialOk i) ∧ w'.phase = .connackGate w.conns.length)) ∧
    (∀ k, w.phase = .connackGate k → w'.phase = .connackGate k ∨ w'.phase = .exited) := by
  have hlr : ∀ w1 : World, w1.phase = w.phase → (∀ k, w.phase ≠ .up k) → (loopReact w1).phase = w.phase := by
    intro w1 h1 hn
    rw [loopReact_of_not_up w1 (by intro k; rw [h1]; exact hn k)]; exact h1
  have key : (w'.phase = w.phase ∨ w'.phase = .exited ∨
      ((∃ i, ev = .dialOk i) ∧ w.phase = .dialGate ∧ w'.phase = .connackGate w.conns.length)) ∨
      (∃ k, w.phase = .up k) ∨ w.phase = .idle ∨ w.phase = .backoff := by
    cases hs with
    | frame _ _ hf => exact Or.inl (Or.inl hf.phase)
    | react _ w1 hf =>
      by_cases hu : ∃ k, w.phase = .up k
      · exact Or.inr (Or.inl hu)
      · exact Or.inl (Or.inl (hlr w1 hf.phase (fun k hk => hu ⟨k, hk⟩)))
    | start hp => exact Or.inr (Or.inr (Or.inl hp))
    | startCancelled hp => exact Or.inr (Or.inr (Or.inl hp))
    | startCancelledDeaf hp => exact Or.inr (Or.inr (Or.inl hp))
    | dialOkCancelled i hp _ _ _ hc hph => exact Or.inl (Or.inr (Or.inl hph))
    | dialFailCancelled hp => exact Or.inl (Or.inr (Or.inl rfl))
    | cancelDeaf => exact Or.inl (Or.inl rfl)
    | dialOk i hp _ hc hph => exact Or.inl (Or.inr (Or.inr ⟨⟨i, rfl⟩, hp, hph⟩))
    | dialFail hp hs0 => rw [hst] at hs0; cases hs0
    | dialFailStopped hp => exact Or.inl (Or.inr (Or.inl rfl))
    | waitElapsed hp => exact Or.inr (Or.inr (Or.inr hp))
    | connOk sp inb k hp hs0 => rw [hst] at hs0; cases hs0
    | connOkStopped sp inb k hp _ _ hc hph => exact Or.inl (Or.inr (Or.inl hph))
    | connFail _ hev k hp hs0 => rw [hst] at hs0; cases hs0
    | connFailStopped _ hev k hp _ _ hc hph => exact Or.inl (Or.inr (Or.inl hph))
    | disc hs0 => rw [hst] at hs0; cases hs0
    | cancel _ _ _ hc hph =>
      rw [hph]
      cases hq : w.phase with
      | idle => exact Or.inr (Or.inr (Or.inl rfl))
      | up k => exact Or.inr (Or.inl ⟨k, rfl⟩)
      | backoff => exact Or.inr (Or.inr (Or.inr rfl))
      | dialGate => exact Or.inl (Or.inr (Or.inl rfl))
      | connackGate k => exact Or.inl (Or.inr (Or.inl rfl))
      | exited => exact Or.inl (Or.inl rfl)
  refine ⟨fun hp => ?_, fun k hp => ?_⟩
  · rcases key with (h | h | ⟨hi, _, h⟩) | ⟨k, h⟩ | h | h
    · exact Or.inl (h.trans hp)
    · exact Or.inr (Or.inl h)
    · exact Or.inr (Or.inr ⟨hi, h⟩)
    · rw [hp] at h; cases h
    · rw [hp] at h; cases h
    · rw [hp] at h; cases h
  · rcases key with (h | h | ⟨_, hd, _⟩) | ⟨k', h⟩ | h | h
    · exact Or.inl (h.trans hp)
    · exact Or.inr h
    · rw [hp] at hd; cases hd
    · rw [hp] at h; cases h
    · rw [hp] at h; cases h
    · rw [hp] at h; cases h

/-! #### the `.dialOk` / `.dialFail` steps, split by whether the first Connect's context was cancelled -/

/-- the world just before `progress` in the `.dialOk` step of a cancelled first Connect -/
def dialOkCancelledPre (w : World) (i : Nat) : World :=
  { w with conns := w.conns ++ [deadConn w i], cli := some w.conns.length, connReady := true, goroutine := true,
           gConnected := if w.goroutine ∧ w.gConnected ∧ ¬ w.stuck then false else w.gConnected,
           phase := .exited }

theorem step_dialOk_cancelled (w : World) (i : Nat) (hp : w.phase = .dialGate) (hcc : w.ctxCancelled = true)
    (hcr : w.connectReturned = none) : step w (.dialOk i) = progress (dialOkCancelledPre w i) := by
  have h1 : ¬ (w.phase ≠ .dialGate) := by simp [hp]
  have h2 : w.ctxCancelled = true ∧ w.connectReturned.isNone = true := ⟨hcc, by rw [hcr]; rfl⟩
  simp only [step, if_neg h1, if_pos h2]
  rfl

/-- … the loop ends whether or not Disconnect was called, no wait is logged -/
theorem step_dialFail_cancelled (w : World) (hp : w.phase = .dialGate) (hcc : w.ctxCancelled = true)
    (hcr : w.connectReturned = none) : step w .dialFail = { w with phase := .exited } := by
  have h1 : ¬ (w.phase ≠ .dialGate) := by simp [hp]
  have h2 : w.ctxCancelled = true ∧ w.connectReturned.isNone = true := ⟨hcc, by rw [hcr]; rfl⟩
  simp only [step, if_neg h1, if_pos h2]
  split <;> rfl

/-- the `.dialOk` step when the first Connect's context is live or Connect has succeeded: as before the
    model change -/
theorem step_dialOk_live (w : World) (i : Nat) (hp : w.phase = .dialGate)
    (hnc : ¬ (w.ctxCancelled = true ∧ w.connectReturned = none)) :
    step w (.dialOk i) =
      { w with conns := w.conns ++ [freshConn w i], cli := some w.conns.length, connReady := false, goroutine := true,
               gConnected := if w.goroutine ∧ w.gConnected ∧ ¬ w.stuck then false else w.gConnected,
               phase := .connackGate w.conns.length } := by
  have h1 : ¬ (w.phase ≠ .dialGate) := by simp [hp]
  have h2 : ¬ (w.ctxCancelled = true ∧ w.connectReturned.isNone = true) := by
    intro hc; exact hnc ⟨hc.1, Option.isNone_iff_eq_none.1 hc.2⟩
  simp only [step, if_neg h1, if_neg h2]
  rfl

/-- with nothing queued the task goroutine leaves the connections alone -/
theorem progress_conns_of_empty (w : World) (hq : w.taskQ = []) : (progress w).conns = w.conns := by
  unfold progress
  rw [loopReact_conns, hq]
  simp only [List.length_nil, runTasks]
  split
  · rfl
  · split
    · rfl
    · simp only [hq]

/-- `.dialOk` after the cancellation of the first Connect's context (in `.dialGate`: only a dialer that
    ignores its context gets here): the loop ends; exactly one connection is appended — CONNECT written,
    closed from the start (the task goroutine may log failed writes on it; none if nothing is queued) —
    no dial, no wait, Connect's outcome unchanged -/
theorem dialOk_cancelled_spec (w : World) (i : Nat) (hp : w.phase = .dialGate) (hcc : w.ctxCancelled = true)
    (hcr : w.connectReturned = none) : let w' := step w (.dialOk i)
    w'.phase = .exited ∧ w'.dials = w.dials ∧ w'.waits = w.waits ∧ w'.stopped = w.stopped ∧ ctxSt w' = ctxSt w ∧
    ConnsExt (w.conns ++ [deadConn w i]) w'.conns ∧ w'.conns.length = w.conns.length + 1 ∧
    (getConn w' w.conns.length).alive = false ∧
    (w.taskQ = [] → w'.conns = w.conns ++ [deadConn w i]) := by
  simp only [step_dialOk_cancelled w i hp hcc hcr]
  have hf := progress_not_up (dialOkCancelledPre w i) (by intro k; simp [dialOkCancelledPre])
  refine ⟨hf.phase, hf.dials, hf.waits, hf.stopped, hf.ctx, hf.1, by rw [hf.length]; simp [dialOkCancelledPre], ?_,
    fun hq => progress_conns_of_empty _ hq⟩
  apply hf.dead
  simp [getConn, dialOkCancelledPre, List.getD, deadConn]

/-! #### a closed connection stays closed -/

theorem dead_lt {w : World} {j : Nat} (hd : (getConn w j).alive = false) : j < w.conns.length := by
  by_cases hj : j < w.conns.length
  · exact hj
  · have : getConn w j = {} := by
      unfold getConn
      simp [List.getD, List.getElem?_eq_none (Nat.le_of_not_lt hj)]
    rw [this] at hd; cases hd

theorem shape_dead {w w' : World} {ev : Ev} (hs : Shape w ev w') {j : Nat}
    (hd : (getConn w j).alive = false) : (getConn w' j).alive = false := by
  have hj := dead_lt hd
  unfold getConn at hd ⊢
  rcases shape_conns hs with he | ⟨i, he⟩ | ⟨i, he⟩
  · exact he.dead hd
  · rw [he, getD_append_left _ _ _ hj]; exact hd
  · apply he.dead; rw [getD_append_left _ _ _ hj]; exact hd

theorem step_dead (w : World) (ev : Ev) {j : Nat} (hd : (getConn w j).alive = false) :
    (getConn (step w ev) j).alive = false := shape_dead (step_shape w ev) hd

theorem foldl_dead (evs : List Ev) (w : World) {j : Nat} (hd : (getConn w j).alive = false) :
    (getConn (evs.foldl step w) j).alive = false := by
  induction evs generalizing w with
  | nil => exact hd
  | cons e evs ih => exact ih _ (step_dead w e hd)

/-! #### after the cancellation of the first Connect's context: the loop has ended, or ends with the dial in flight -/

/-- One step from a world whose first Connect was cancelled before any success and whose loop has ended
    or is inside DialContext (reachable only with a dialer that ignores its context): the context stays
    cancelled, Connect never succeeds, NO dial is made; the phase and the number of connections stay,
    unless the dial in flight resolves — `.dialFail`: the loop ends; `.dialOk`: the loop ends and ONE
    connection is appended, closed from the start. -/
theorem cancelled_shape {w w' : World} {ev : Ev} (hcc : w.ctxCancelled = true) (hcr : w.connectReturned = none)
    (hp : w.phase = .exited ∨ w.phase = .dialGate) (hs : Shape w ev w') :
    w'.ctxCancelled = true ∧ w'.connectReturned = none ∧ w'.dials = w.dials ∧
    ((w'.phase = w.phase ∧ w'.conns.length = w.conns.length) ∨
     (w.phase = .dialGate ∧ ev = .dialFail ∧ w'.phase = .exited ∧ w'.conns.length = w.conns.length) ∨
     (w.phase = .dialGate ∧ (∃ i, ev = .dialOk i) ∧ w'.phase = .exited ∧
        w'.conns.length = w.conns.length + 1 ∧ (getConn w' w.conns.length).alive = false)) := by
  have hni : w.phase ≠ .idle := by rcases hp with h | h <;> rw [h] <;> simp
  have hnb : w.phase ≠ .backoff := by rcases hp with h | h <;> rw [h] <;> simp
  have hng : ∀ k, w.phase ≠ .connackGate k := by intro k; rcases hp with h | h <;> rw [h] <;> simp
  have hnu : ∀ k, w.phase ≠ .up k := by intro k; rcases hp with h | h <;> rw [h] <;> simp
  have hlr : ∀ w1 : World, w1.phase = w.phase → loopReact w1 = w1 :=
    fun w1 h1 => loopReact_of_not_up w1 (by intro k; rw [h1]; exact hnu k)
  cases hs with
  | frame _ _ hf =>
    exact ⟨hf.ctxCancelled.trans hcc, hf.connectReturned.trans hcr, hf.dials, Or.inl ⟨hf.phase, hf.length⟩⟩
  | react _ w1 hf =>
    rw [hlr w1 hf.phase]
    exact ⟨hf.ctxCancelled.trans hcc, hf.connectReturned.trans hcr, hf.dials, Or.inl ⟨hf.phase, hf.length⟩⟩
  | start hp0 => exact absurd hp0 hni
  | startCancelled hp0 => exact absurd hp0 hni
  | startCancelledDeaf hp0 => exact absurd hp0 hni
  | dialOk i hp0 _ hc hph hw he hd hs hx hcfg hnc => exact absurd ⟨hcc, hcr⟩ hnc
  | dialOkCancelled i hp0 _ _ _ hc hph hw he hd hs hx =>
    obtain ⟨a, b, _⟩ := ctxSt_eq hx
    refine ⟨b.trans hcc, a.trans hcr, hd, Or.inr (Or.inr ⟨hp0, ⟨i, rfl⟩, hph, by rw [hc.1]; simp, ?_⟩)⟩
    unfold getConn
    apply hc.dead
    simp [List.getD, deadConn]
  | dialFail hp0 hs0 hnc => exact absurd ⟨hcc, hcr⟩ hnc
  | dialFailCancelled hp0 => exact ⟨hcc, hcr, rfl, Or.inr (Or.inl ⟨hp0, rfl, rfl, rfl⟩)⟩
  | dialFailStopped hp0 => exact ⟨hcc, hcr, rfl, Or.inr (Or.inl ⟨hp0, rfl, rfl, rfl⟩)⟩
  | waitElapsed hp0 => exact absurd hp0 hnb
  | connOk sp inb k hp0 => exact absurd hp0 (hng k)
  | connOkStopped sp inb k hp0 => exact absurd hp0 (hng k)
  | connFail _ hev k hp0 => exact absurd hp0 (hng k)
  | connFailStopped _ hev k hp0 => exact absurd hp0 (hng k)
  | disc hs0 w1 hc hph hw he hd hs hx =>
    obtain ⟨a, b, _⟩ := ctxSt_eq hx
    rw [hlr w1 hph]
    refine ⟨b.trans hcc, a.trans hcr, hd, Or.inl ⟨?_, hc.1⟩⟩
    show discPhase w1.phase = w.phase
    rw [hph]
    rcases hp with h | h <;> rw [h] <;> rfl
  | cancel hcc0 => rw [hcc] at hcc0; cases hcc0
  | cancelDeaf hcc0 => rw [hcc] at hcc0; cases hcc0

/-- … over any sequence of later events: never another dial; at most one more connection, and only if
    the loop was inside DialContext; every connection created is closed from the start; the loop is
    `.exited`, or still inside that same DialContext. -/
theorem cancelled_foldl (evs : List Ev) (w : World) (hcc : w.ctxCancelled = true) (hcr : w.connectReturned = none)
    (hp : w.phase = .exited ∨ w.phase = .dialGate) :
    (evs.foldl step w).ctxCancelled = true ∧ (evs.foldl step w).connectReturned = none ∧
    (evs.foldl step w).dials = w.dials ∧
    ((evs.foldl step w).phase = .exited ∨ ((evs.foldl step w).phase = .dialGate ∧ w.phase = .dialGate)) ∧
    w.conns.length ≤ (evs.foldl step w).conns.length ∧
    (evs.foldl step w).conns.length + connBudget (evs.foldl step w).phase ≤ w.conns.length + connBudget w.phase ∧
    (∀ j, w.conns.length ≤ j → j < (evs.foldl step w).conns.length →
      (getConn (evs.foldl step w) j).alive = false) := by
  induction evs generalizing w with
  | nil =>
    refine ⟨hcc, hcr, rfl, ?_, Nat.le_refl _, Nat.le_refl _, fun j h1 h2 => absurd h2 (by simp only [List.foldl_nil]; omega)⟩
    rcases hp with h | h
    · exact Or.inl h
    · exact Or.inr ⟨h, h⟩
  | cons e es ih =>
    obtain ⟨a1, a2, a3, a4⟩ := cancelled_shape hcc hcr hp (step_shape w e)
    have hp1 : (step w e).phase = .exited ∨ (step w e).phase = .dialGate := by
      rcases a4 with ⟨h, _⟩ | ⟨_, _, h, _⟩ | ⟨_, _, h, _⟩
      · rw [h]; exact hp
      · exact Or.inl h
      · exact Or.inl h
    obtain ⟨b1, b2, b3, b4, b5, b6, b7⟩ := ih (step w e) a1 a2 hp1
    simp only [List.foldl_cons]
    refine ⟨b1, b2, b3.trans a3, ?_, ?_, ?_, ?_⟩
    · rcases b4 with h | ⟨h, h'⟩
      · exact Or.inl h
      · right
        refine ⟨h, ?_⟩
        rcases a4 with ⟨g, _⟩ | ⟨_, _, g, _⟩ | ⟨_, _, g, _⟩
        · rw [← g]; exact h'
        · rw [g] at h'; cases h'
        · rw [g] at h'; cases h'
    · rcases a4 with ⟨_, g⟩ | ⟨_, _, _, g⟩ | ⟨_, _, _, g, _⟩ <;> omega
    · rcases a4 with ⟨g, g'⟩ | ⟨g0, _, g, g'⟩ | ⟨g0, _, g, g', _⟩
      · rw [g, g'] at b6; exact b6
      · rw [g, g'] at b6; rw [g0]; simp only [connBudget] at b6 ⊢; omega
      · rw [g, g'] at b6; rw [g0]; simp only [connBudget] at b6 ⊢; omega
    · intro j h1 h2
      rcases a4 with ⟨_, g'⟩ | ⟨_, _, _, g'⟩ | ⟨_, _, _, g', gd⟩
      · exact b7 j (by omega) h2
      · exact b7 j (by omega) h2
      · by_cases hj : j = w.conns.length
        · subst hj; exact foldl_dead es _ gd
        · exact b7 j (by omega) h2

end Mqtt.Retry
