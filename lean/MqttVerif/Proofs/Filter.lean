/-
  Helper lemmas for C14: `splitSlash` / `newTopicFilter` / `matchLevels` / ServeMux against
  the §4.7 specification in `Spec/TopicMatch.lean`.
-/
import MqttVerif.Model.Filter
import MqttVerif.Spec.TopicMatch

namespace Mqtt

/-! ### splitting -/

theorem splitSlash_eq_levels (s : Bytes) : splitSlash s = Spec.levels s := by
  induction s with
  | nil => rfl
  | cons c rest ih =>
    unfold splitSlash Spec.levels
    rw [ih]
    by_cases hc : c = 47
    · simp [slash, hc]
    · simp only [slash, hc, if_false]
      cases Spec.levels rest <;> rfl

theorem splitSlash_ne_nil (s : Bytes) : splitSlash s ≠ [] := by
  cases s with
  | nil => simp [splitSlash]
  | cons c rest =>
    unfold splitSlash
    split
    · simp
    · split <;> simp

theorem levels_ne_nil (s : Bytes) : Spec.levels s ≠ [] := by
  rw [← splitSlash_eq_levels]; exact splitSlash_ne_nil s

/-! ### validity on level lists -/

/-- Level-list form of §4.7.1: '+' only as a whole level; '#' only as the whole last level. -/
def ValidLevels : List Bytes → Prop
  | [] => True
  | f :: rest => (43 ∈ f → f = [43]) ∧ (35 ∈ f → f = [35] ∧ rest = []) ∧ ValidLevels rest

theorem mem_length_one {a : Nat} {f : Bytes} (h : a ∈ f) (hl : f.length = 1) : f = [a] := by
  match f, hl with
  | [b], _ => simp at h; simp [h]

theorem checkLevels_iff (fs : List Bytes) (i n : Nat) (h : i + fs.length = n) :
    checkLevels fs i n = true ↔ ValidLevels fs := by
  induction fs generalizing i with
  | nil => simp [checkLevels, ValidLevels]
  | cons f rest ih =>
    simp only [List.length_cons] at h
    have ih' := ih (i + 1) (by omega)
    unfold checkLevels ValidLevels
    by_cases hp : 43 ∈ f
    · by_cases hl : f.length = 1
      · have hf : f = [43] := mem_length_one hp hl
        subst hf
        simp [plus, hash, ih']
      · have : f ≠ [43] := by intro e; subst e; simp at hl
        simp [plus, hp, hl, this]
    · by_cases hh : 35 ∈ f
      · by_cases hl : f.length = 1
        · have hf : f = [35] := mem_length_one hh hl
          subst hf
          by_cases hr : rest = []
          · subst hr
            have : i = n - 1 := by simp at h; omega
            simp [plus, hash, this, checkLevels, ValidLevels]
          · have hlen : rest.length ≠ 0 := by simpa using hr
            have : i ≠ n - 1 := by omega
            simp [plus, hash, this, hr]
        · have : f ≠ [35] := by intro e; subst e; simp at hl
          simp [plus, hash, hp, hh, hl, this]
      · simp [plus, hash, hp, hh, ih']

theorem validLevels_iff_get (fs : List Bytes) :
    ValidLevels fs ↔ ∀ i l, fs[i]? = some l →
      ((43 ∈ l → l = [43]) ∧ (35 ∈ l → l = [35] ∧ i + 1 = fs.length)) := by
  induction fs with
  | nil => simp [ValidLevels]
  | cons f rest ih =>
    unfold ValidLevels
    rw [ih]
    constructor
    · rintro ⟨h1, h2, h3⟩ i l hi
      cases i with
      | zero =>
        simp at hi; subst hi
        refine ⟨h1, fun h => ?_⟩
        have := h2 h
        simp [this.1, this.2]
      | succ j =>
        simp at hi
        have := h3 j l hi
        refine ⟨this.1, fun h => ?_⟩
        have := this.2 h
        simp [this.1, this.2]
    · intro h
      refine ⟨(h 0 f (by simp)).1, fun hh => ?_, fun i l hi => ?_⟩
      · have := (h 0 f (by simp)).2 hh
        refine ⟨this.1, ?_⟩
        have h2 := this.2
        simp at h2
        exact h2
      · have := h (i + 1) l (by simpa using hi)
        refine ⟨this.1, fun hh => ?_⟩
        have := this.2 hh
        refine ⟨this.1, ?_⟩
        have h2 := this.2
        simp at h2
        omega

theorem validFilter_iff (s : Bytes) : Spec.ValidFilter s ↔ s ≠ [] ∧ ValidLevels (Spec.levels s) := by
  unfold Spec.ValidFilter
  rw [validLevels_iff_get]

theorem newTopicFilter_eq (s : Bytes) [Decidable (ValidLevels (Spec.levels s))] :
    newTopicFilter s =
      if s ≠ [] ∧ ValidLevels (Spec.levels s) then .ok (Spec.levels s) else .err .invalidTopicFilter := by
  unfold newTopicFilter
  cases s with
  | nil => simp
  | cons c rest =>
    simp only [splitSlash_eq_levels]
    by_cases h : ValidLevels (Spec.levels (c :: rest))
    · have := (checkLevels_iff (Spec.levels (c :: rest)) 0 _ (Nat.zero_add _)).2 h
      simp [this, h]
    · have : ¬ checkLevels (Spec.levels (c :: rest)) 0 (Spec.levels (c :: rest)).length = true :=
        fun e => h ((checkLevels_iff _ 0 _ (Nat.zero_add _)).1 e)
      simp [this, h]

theorem newTopicFilter_valid {s : Bytes} (v : Spec.ValidFilter s) :
    newTopicFilter s = .ok (Spec.levels s) := by
  classical
  rw [newTopicFilter_eq, if_pos ((validFilter_iff s).1 v)]

theorem newTopicFilter_invalid {s : Bytes} (v : ¬ Spec.ValidFilter s) :
    newTopicFilter s = .err .invalidTopicFilter := by
  classical
  rw [newTopicFilter_eq, if_neg (fun h => v ((validFilter_iff s).2 h))]

theorem newTopicFilter_isOk_iff (s : Bytes) : (newTopicFilter s).isOk = true ↔ Spec.ValidFilter s := by
  constructor
  · intro h
    apply Classical.byContradiction
    intro v
    rw [newTopicFilter_invalid v] at h
    cases h
  · intro v
    rw [newTopicFilter_valid v]; rfl

/-- `ValidFilter` is decidable (by running the validated model), so concrete instances can be
    checked with `decide`. -/
instance (s : Bytes) : Decidable (Spec.ValidFilter s) :=
  decidable_of_iff _ (newTopicFilter_isOk_iff s)

/-! ### matching on level lists -/

theorem matches_plus_cons (fs ts : List Bytes) (t : Bytes) :
    Spec.Matches ([43] :: fs) (t :: ts) ↔ Spec.Matches fs ts := by
  constructor
  · intro h
    cases h with
    | plus _ _ _ h => exact h
    | lit _ _ _ h1 _ _ => exact absurd rfl h1
  · exact Spec.Matches.plus fs ts t

theorem not_matches_plus_nil (fs : List Bytes) : ¬ Spec.Matches ([43] :: fs) [] := by
  intro h; cases h

theorem matches_lit_cons (f : Bytes) (hf1 : f ≠ [43]) (hf2 : f ≠ [35]) (fs ts : List Bytes) (t : Bytes) :
    Spec.Matches (f :: fs) (t :: ts) ↔ (f = t ∧ Spec.Matches fs ts) := by
  constructor
  · intro h
    cases h with
    | hash => exact absurd rfl hf2
    | plus => exact absurd rfl hf1
    | lit _ _ _ _ _ h => exact ⟨rfl, h⟩
  · rintro ⟨rfl, h⟩
    exact Spec.Matches.lit f fs ts hf1 hf2 h

theorem not_matches_lit_nil (f : Bytes) (hf2 : f ≠ [35]) (fs : List Bytes) :
    ¬ Spec.Matches (f :: fs) [] := by
  intro h
  cases h with
  | hash => exact absurd rfl hf2

theorem matches_nil_iff (ts : List Bytes) : Spec.Matches [] ts ↔ ts = [] := by
  constructor
  · intro h; cases h; rfl
  · rintro rfl; exact Spec.Matches.nil

theorem matchLevels_iff (fs : List Bytes) (v : ValidLevels fs) (ts : List Bytes) :
    matchLevels fs ts = true ↔ Spec.Matches fs ts := by
  induction fs generalizing ts with
  | nil => simp [matchLevels, matches_nil_iff]
  | cons f rest ih =>
    obtain ⟨_, v2, v3⟩ := v
    unfold matchLevels
    by_cases hh : f = [35]
    · subst hh
      have : rest = [] := (v2 (by simp)).2
      subst this
      simp [hash, Spec.Matches.hash]
    · cases ts with
      | nil => simp [hash, hh, not_matches_lit_nil f hh rest]
      | cons x xs =>
        by_cases hp : f = [43]
        · subst hp
          simp [hash, plus, matches_plus_cons, ih v3 xs]
        · simp [hash, plus, hh, hp, matches_lit_cons f hp hh, ih v3 xs]

/-! ### ServeMux -/

theorem mem_muxRegister_go (fs : List Bytes) (k : Nat) (p : Nat × List Bytes) :
    p ∈ muxRegister.go fs k ↔
      ∃ j f, fs[j]? = some f ∧ Spec.ValidFilter f ∧ p = (k + j, Spec.levels f) := by
  induction fs generalizing k with
  | nil => simp [muxRegister.go]
  | cons f rest ih =>
    unfold muxRegister.go
    by_cases v : Spec.ValidFilter f
    · rw [newTopicFilter_valid v]
      simp only [List.mem_cons, ih]
      constructor
      · rintro (rfl | ⟨j, g, hj, hv, rfl⟩)
        · exact ⟨0, f, by simp, v, by simp⟩
        · exact ⟨j + 1, g, by simpa using hj, hv, by simp; omega⟩
      · rintro ⟨j, g, hj, hv, rfl⟩
        cases j with
        | zero => simp at hj; subst hj; left; simp
        | succ j => right; exact ⟨j, g, by simpa using hj, hv, by simp; omega⟩
    · rw [newTopicFilter_invalid v]
      simp only [ih]
      constructor
      · rintro ⟨j, g, hj, hv, rfl⟩
        exact ⟨j + 1, g, by simpa using hj, hv, by simp; omega⟩
      · rintro ⟨j, g, hj, hv, rfl⟩
        cases j with
        | zero => simp at hj; subst hj; exact absurd hv v
        | succ j => exact ⟨j, g, by simpa using hj, hv, by simp; omega⟩

theorem muxRegister_go_lb (fs : List Bytes) (k : Nat) :
    ∀ p ∈ muxRegister.go fs k, k ≤ p.1 := by
  intro p hp
  obtain ⟨j, f, _, _, rfl⟩ := (mem_muxRegister_go fs k p).1 hp
  simp

theorem muxRegister_go_pairwise (fs : List Bytes) (k : Nat) :
    (muxRegister.go fs k).Pairwise (fun a b => a.1 < b.1) := by
  induction fs generalizing k with
  | nil => simp [muxRegister.go]
  | cons f rest ih =>
    unfold muxRegister.go
    split
    · rw [List.pairwise_cons]
      refine ⟨fun p hp => ?_, ih (k + 1)⟩
      have := muxRegister_go_lb rest (k + 1) p hp
      simp; omega
    · exact ih (k + 1)

end Mqtt
