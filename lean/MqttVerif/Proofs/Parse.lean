/-
  Helper lemmas about the decoder model (`Model/Parse.lean`) used by property C06.
-/
import MqttVerif.Model.Parse
import MqttVerif.Proofs.Bits

namespace Mqtt

/-- All elements of a stream are bytes. -/
def IsBytes (bs : Bytes) : Prop := ∀ b ∈ bs, b < 256

instance (bs : Bytes) : Decidable (IsBytes bs) := by unfold IsBytes; infer_instance

/-! ### unpackUint16 / unpackString -/

theorem unpackUint16_of_len {b : Bytes} (h : 2 ≤ b.length) :
    ∃ b0 b1 tl, b = b0 :: b1 :: tl ∧ unpackUint16 b = .ok ((b0 <<< 8) ||| b1) := by
  match b, h with
  | b0 :: b1 :: tl, _ => exact ⟨b0, b1, tl, rfl, rfl⟩

theorem unpackUint16_ne_panic {b : Bytes} (h : 2 ≤ b.length) : unpackUint16 b ≠ .panic := by
  obtain ⟨_, _, _, _, h'⟩ := unpackUint16_of_len h
  simp [h']

/-- explicit form of `unpackString` on inputs of length ≥ 2 -/
theorem unpackString_cons (b0 b1 : Nat) (tl : Bytes) :
    unpackString (b0 :: b1 :: tl) =
      if ((b0 <<< 8) ||| b1) > tl.length then .err .invalidPacketLength
      else if (decodeRunes (tl.take ((b0 <<< 8) ||| b1))).any badRune then .err .invalidRune
      else .ok (((b0 <<< 8) ||| b1) + 2, encodeRunes (decodeRunes (tl.take ((b0 <<< 8) ||| b1)))) := by
  have h1 : ¬ (tl.length + 1 + 1 < 2) := by omega
  simp only [unpackString, unpackUint16, List.drop_succ_cons, List.drop_zero,
    List.length_cons, h1, if_false]
  by_cases h : (b0 <<< 8 ||| b1) > tl.length
  · have : (b0 <<< 8 ||| b1) + 2 > tl.length + 1 + 1 := by omega
    simp only [this, if_true]; simp [h]
  · have : ¬ (b0 <<< 8 ||| b1) + 2 > tl.length + 1 + 1 := by omega
    simp only [this, if_false]; simp [h]

theorem unpackString_short {b : Bytes} (h : b.length < 2) :
    unpackString b = .err .invalidPacketLength := by
  simp [unpackString, h]

theorem unpackString_no_panic (b : Bytes) : unpackString b ≠ .panic := by
  match b with
  | [] => simp [unpackString]
  | [_] => simp [unpackString]
  | b0 :: b1 :: tl =>
    rw [unpackString_cons]
    split
    · simp
    · split <;> simp

/-- the consumed count returned by `unpackString` lies inside the buffer -/
theorem unpackString_ok_bounds {b : Bytes} {n : Nat} {t : Bytes}
    (h : unpackString b = .ok (n, t)) : 2 ≤ n ∧ n ≤ b.length := by
  match b with
  | [] => simp [unpackString] at h
  | [_] => simp [unpackString] at h
  | b0 :: b1 :: tl =>
    rw [unpackString_cons] at h
    split at h
    · simp at h
    · split at h
      · simp at h
      · simp only [Res.ok.injEq, Prod.mk.injEq] at h
        simp only [List.length_cons]
        omega

/-! ### packet parsers never panic -/

theorem parseConnAck_no_panic (f : Nat) (c : Bytes) : parseConnAck f c ≠ .panic := by
  unfold parseConnAck
  split
  · simp
  · split
    · simp
    · match c with
      | [] => simp_all
      | [_] => simp_all
      | _ :: _ :: _ => simp

theorem parseIdOnly_no_panic (e f : Nat) (c : Bytes) : parseIdOnly e f c ≠ .panic := by
  unfold parseIdOnly
  split
  · simp
  · split
    · simp
    · exact unpackUint16_ne_panic (by omega)

theorem parseSubAck_no_panic (f : Nat) (c : Bytes) : parseSubAck f c ≠ .panic := by
  unfold parseSubAck
  split
  · simp
  · split
    · simp
    · obtain ⟨b0, b1, tl, _, h'⟩ := unpackUint16_of_len (b := c) (by omega)
      simp [h']

theorem parsePingResp_no_panic (f : Nat) (c : Bytes) : parsePingResp f c ≠ .panic := by
  unfold parsePingResp
  split <;> simp

theorem parsePublish_no_panic (f : Nat) (c : Bytes) : parsePublish f c ≠ .panic := by
  unfold parsePublish
  extract_lets dup retain qosR
  have hq : qosR ≠ .panic := by
    simp only [qosR]
    split
    · simp
    · split
      · simp
      · split <;> simp
  clear_value qosR
  cases qosR with
  | panic => exact absurd rfl hq
  | err e => simp
  | ok qos =>
    simp only
    cases hu : unpackString c with
    | panic => exact absurd hu (unpackString_no_panic c)
    | err e => simp
    | ok nt =>
      obtain ⟨n, topic⟩ := nt
      have hb := unpackString_ok_bounds hu
      simp only
      split
      · split
        · simp
        · split
          · omega
          · obtain ⟨b0, b1, tl, _, h'⟩ :=
              unpackUint16_of_len (b := c.drop n) (by simp only [List.length_drop]; omega)
            rw [h']
            simp only
            split
            · omega
            · simp
      · split
        · omega
        · simp

/-! ### readLen / readPacket -/

theorem readLen_ne_panic (shift acc b1 : Nat) (rest : Bytes) :
    readLen shift acc b1 rest ≠ .panic := by
  fun_induction readLen shift acc b1 rest <;> simp_all

theorem readLen_step_lt {shift acc : Nat} (b1 : Nat) (ha : acc < 2 ^ shift) :
    acc ||| ((b1 &&& 0x7F) <<< shift) < 2 ^ (shift + 7) := by
  have hx : b1 &&& 0x7F < 2 ^ 7 := Nat.lt_succ_of_le Nat.and_le_right
  have h1 : (b1 &&& 0x7F) <<< shift < 2 ^ (shift + 7) := by
    rw [Nat.shiftLeft_eq, Nat.pow_add, Nat.mul_comm]
    exact (Nat.mul_lt_mul_left (Nat.two_pow_pos shift)).2 hx
  have h2 : acc < 2 ^ (shift + 7) :=
    Nat.lt_of_lt_of_le ha (Nat.pow_le_pow_right (by decide) (by omega))
  exact Nat.or_lt_two_pow h2 h1

/-- key lemma: the remaining length decoded by the (four-byte-bounded) loop is below 2^28,
    and the loop only consumes input. No `< 256` hypothesis on the bytes is needed because
    every byte is masked with `0x7F` before use. -/
theorem readLen_ok_bound (shift acc b1 : Nat) (rest : Bytes) (rl : Nat) (rest' : Bytes)
    (h7 : shift % 7 = 0) (hs : shift ≤ 21) (ha : acc < 2 ^ shift)
    (h : readLen shift acc b1 rest = .ok (rl, rest')) :
    rl < 2 ^ 28 ∧ rest'.length ≤ rest.length := by
  fun_induction readLen shift acc b1 rest with
  | case1 rest shift acc b1 hb =>
    simp only [Res.ok.injEq, Prod.mk.injEq] at h
    obtain ⟨rfl, rfl⟩ := h
    refine ⟨?_, Nat.le_refl _⟩
    exact Nat.lt_of_lt_of_le (readLen_step_lt b1 ha) (Nat.pow_le_pow_right (by decide) (by omega))
  | case2 => simp at h
  | case3 => simp at h
  | case4 shift acc b1 acc' hb hsh b rest'' ih =>
    have := ih (by omega) (by omega) (readLen_step_lt b1 ha) h
    simp only [List.length_cons]
    omega

theorem readPacket_res_ne_panic (bs : Bytes) : (readPacket bs).res ≠ .panic := by
  unfold readPacket
  split
  · simp
  · simp
  · rename_i b0 b1 rest
    split
    · rename_i rl rest' hr
      have hb := (readLen_ok_bound 0 0 b1 rest rl rest' (by decide) (by decide) (by decide) hr).1
      have : ¬ rl ≥ 2 ^ 47 := by
        have : (2:Nat) ^ 28 < 2 ^ 47 := by decide
        omega
      rw [if_neg this]
      split
      · simp
      · split
        · simp
        · split <;> simp
    · simp
    · exact absurd ‹_› (readLen_ne_panic _ _ _ _)

theorem readPacket_alloc_le (bs : Bytes) (a : Nat) (h : (readPacket bs).alloc = some a) :
    a ≤ maxRemainingLength := by
  unfold readPacket at h
  split at h
  · simp at h
  · simp at h
  · rename_i b0 b1 rest
    split at h
    · rename_i rl rest' hr
      have hb := (readLen_ok_bound 0 0 b1 rest rl rest' (by decide) (by decide) (by decide) hr).1
      have h28 : (2:Nat) ^ 28 = 268435456 := by decide
      have : a = rl := by
        split at h
        · simpa using h.symm
        · split at h
          · simp at h; omega
          · split at h
            · simpa using h.symm
            · split at h <;> simpa using h.symm
      unfold maxRemainingLength
      omega
    · simp at h
    · simp at h

/-- every successfully read packet consumes at least two bytes -/
theorem readPacket_ok_length {bs : Bytes} {p : Packet} {rest : Bytes}
    (h : (readPacket bs).res = .ok (p, rest)) : rest.length + 2 ≤ bs.length := by
  unfold readPacket at h
  split at h
  · simp at h
  · simp at h
  · rename_i b0 b1 rest0
    split at h
    · rename_i rl rest' hr
      have hb := (readLen_ok_bound 0 0 b1 rest0 rl rest' (by decide) (by decide) (by decide) hr).2
      simp only [List.length_cons]
      split at h
      · simp at h
      · split at h
        · simp only [Res.ok.injEq, Prod.mk.injEq] at h
          obtain ⟨_, rfl⟩ := h
          omega
        · split at h
          · simp at h
          · split at h
            · simp at h
            · simp only [Res.ok.injEq, Prod.mk.injEq] at h
              obtain ⟨_, rfl⟩ := h
              simp only [List.length_drop]
              omega
    · simp at h
    · simp at h

/-! ### serveStep -/

theorem pack_id (t id : Nat) :
    pack t [packUint16 id] = .ok [t, 2, (id >>> 8) % 256, id % 256] := by
  simp [pack, packUint16, appendUint16, remainingLength, rlMax1]

theorem serveStep_no_panic (sb : SubBuffer) (h : Bool) (p : Packet) : serveStep sb h p ≠ .panic := by
  unfold serveStep
  split
  · have := parseConnAck_no_panic p.flag p.contents
    split <;> simp_all
  split
  · have := parsePublish_no_panic p.flag p.contents
    split
    · simp only [packPubAck, packPubRec, pack_id, liftPack]
      split
      · simp
      · split <;> simp
    · simp
    · simp_all
  split
  · have := parseIdOnly_no_panic 0 p.flag p.contents
    split <;> simp_all
  split
  · have := parseIdOnly_no_panic 0 p.flag p.contents
    split <;> simp_all
  split
  · have := parseIdOnly_no_panic 2 p.flag p.contents
    split
    · simp only [packPubComp, pack_id, liftPack]
      split <;> simp
    · simp
    · simp_all
  split
  · have := parseIdOnly_no_panic 0 p.flag p.contents
    split <;> simp_all
  split
  · have := parseSubAck_no_panic p.flag p.contents
    split <;> simp_all
  split
  · have := parseIdOnly_no_panic 0 p.flag p.contents
    split <;> simp_all
  split
  · have := parsePingResp_no_panic p.flag p.contents
    split <;> simp_all
  · simp

/-- `serveStep` on a PUBLISH is an error as soon as `parsePublish` is -/
theorem serveStep_publish_err (sb : SubBuffer) (h : Bool) (p : Packet)
    (ht : p.ptype = packetPublish) (hp : ∃ e, parsePublish p.flag p.contents = .err e) :
    ∃ e, serveStep sb h p = .err e := by
  obtain ⟨e, he⟩ := hp
  exact ⟨e, by simp [serveStep, ht, he, packetConnAck, packetPublish]⟩

/-- `parsePublish` is an error as soon as `unpackString` (the topic) is -/
theorem parsePublish_err_of_topic (f : Nat) (c : Bytes) (e : ErrClass)
    (hu : unpackString c = .err e) : ∃ e', parsePublish f c = .err e' := by
  unfold parsePublish
  simp only [hu]
  split
  · exact ⟨_, rfl⟩
  · exact ⟨_, rfl⟩
  · rename_i hq
    split at hq
    · simp at hq
    · split at hq
      · simp at hq
      · split at hq <;> simp at hq

/-! ### the reader loop -/

theorem serveFuel_succ_ok {fuel : Nat} {sb sb' : SubBuffer} {h : Bool} {bs rest : Bytes} {p : Packet}
    {outs : List Out}
    (hr : (readPacket bs).res = .ok (p, rest)) (hs : serveStep sb h p = .ok (sb', outs)) :
    serveFuel (fuel + 1) sb h bs =
      { serveFuel fuel sb' h rest with
        outs := outs ++ (serveFuel fuel sb' h rest).outs
        processed := (serveFuel fuel sb' h rest).processed + 1
        allocs := (readPacket bs).alloc.toList ++ (serveFuel fuel sb' h rest).allocs } := by
  simp only [serveFuel, hr, hs]

theorem serveFuel_succ_step_err {fuel : Nat} {sb : SubBuffer} {h : Bool} {bs rest : Bytes} {p : Packet}
    {e : ErrClass}
    (hr : (readPacket bs).res = .ok (p, rest)) (hs : serveStep sb h p = .err e) :
    serveFuel (fuel + 1) sb h bs =
      { outs := [], processed := 0, allocs := (readPacket bs).alloc.toList, outcome := .err e } := by
  simp only [serveFuel, hr, hs]

theorem serveFuel_succ_read_err {fuel : Nat} {sb : SubBuffer} {h : Bool} {bs : Bytes} {e : ErrClass}
    (hr : (readPacket bs).res = .err e) :
    serveFuel (fuel + 1) sb h bs =
      { outs := [], processed := 0, allocs := (readPacket bs).alloc.toList, outcome := .err e } := by
  simp only [serveFuel, hr]

theorem serveFuel_succ_eq (n : Nat) : ∀ (sb : SubBuffer) (h : Bool) (bs : Bytes),
    bs.length + 1 ≤ n → serveFuel (n + 1) sb h bs = serveFuel n sb h bs := by
  induction n with
  | zero => intro _ _ _ hn; omega
  | succ n ih =>
    intro sb h bs hn
    cases hr : (readPacket bs).res with
    | panic => exact absurd hr (readPacket_res_ne_panic bs)
    | err e => rw [serveFuel_succ_read_err hr, serveFuel_succ_read_err hr]
    | ok pr =>
      obtain ⟨p, rest⟩ := pr
      have hl := readPacket_ok_length hr
      cases hs : serveStep sb h p with
      | panic => exact absurd hs (serveStep_no_panic sb h p)
      | err e => rw [serveFuel_succ_step_err hr hs, serveFuel_succ_step_err hr hs]
      | ok r =>
        obtain ⟨sb', outs⟩ := r
        rw [serveFuel_succ_ok hr hs, serveFuel_succ_ok hr hs, ih sb' h rest (by omega)]

theorem serveFuel_sufficient (sb : SubBuffer) (h : Bool) (bs : Bytes) (n : Nat)
    (hn : bs.length + 1 ≤ n) : serveFuel n sb h bs = serveStream sb h bs := by
  unfold serveStream
  induction n with
  | zero => omega
  | succ n ih =>
    by_cases hq : bs.length + 1 = n + 1
    · rw [hq]
    · rw [serveFuel_succ_eq n sb h bs (by omega), ih (by omega)]

/-- one-step unfolding of `serveStream` -/
theorem serveStream_ok {sb sb' : SubBuffer} {h : Bool} {bs rest : Bytes} {p : Packet} {outs : List Out}
    (hr : (readPacket bs).res = .ok (p, rest)) (hs : serveStep sb h p = .ok (sb', outs)) :
    serveStream sb h bs =
      { serveStream sb' h rest with
        outs := outs ++ (serveStream sb' h rest).outs
        processed := (serveStream sb' h rest).processed + 1
        allocs := (readPacket bs).alloc.toList ++ (serveStream sb' h rest).allocs } := by
  have hl := readPacket_ok_length hr
  rw [← serveFuel_sufficient sb' h rest bs.length (by omega)]
  exact serveFuel_succ_ok hr hs

theorem serveStream_step_err {sb : SubBuffer} {h : Bool} {bs rest : Bytes} {p : Packet} {e : ErrClass}
    (hr : (readPacket bs).res = .ok (p, rest)) (hs : serveStep sb h p = .err e) :
    serveStream sb h bs =
      { outs := [], processed := 0, allocs := (readPacket bs).alloc.toList, outcome := .err e } :=
  serveFuel_succ_step_err hr hs

theorem serveStream_read_err {sb : SubBuffer} {h : Bool} {bs : Bytes} {e : ErrClass}
    (hr : (readPacket bs).res = .err e) :
    serveStream sb h bs =
      { outs := [], processed := 0, allocs := (readPacket bs).alloc.toList, outcome := .err e } :=
  serveFuel_succ_read_err hr

/-- induction principle for the reader loop: to prove `P` of every run it suffices to prove it
    for runs ending at once with an error and for runs that process one packet and go on
    (panics are excluded by `readPacket_res_ne_panic` and `serveStep_no_panic`). -/
theorem serveStream_induct (h : Bool) (P : SubBuffer → Bytes → ServeRun → Prop)
    (herr : ∀ sb bs e,
      P sb bs { outs := [], processed := 0, allocs := (readPacket bs).alloc.toList, outcome := .err e })
    (hok : ∀ sb bs p rest sb' outs, (readPacket bs).res = .ok (p, rest) →
      serveStep sb h p = .ok (sb', outs) → P sb' rest (serveStream sb' h rest) →
      P sb bs { serveStream sb' h rest with
        outs := outs ++ (serveStream sb' h rest).outs
        processed := (serveStream sb' h rest).processed + 1
        allocs := (readPacket bs).alloc.toList ++ (serveStream sb' h rest).allocs }) :
    ∀ sb bs, P sb bs (serveStream sb h bs) := by
  intro sb bs
  generalize hn : bs.length = n
  induction n using Nat.strongRecOn generalizing sb bs with
  | _ n ih =>
    cases hr : (readPacket bs).res with
    | panic => exact absurd hr (readPacket_res_ne_panic bs)
    | err e =>
      rw [serveStream_read_err hr]
      exact herr sb bs e
    | ok pr =>
      obtain ⟨p, rest⟩ := pr
      have hl := readPacket_ok_length hr
      cases hs : serveStep sb h p with
      | panic => exact absurd hs (serveStep_no_panic sb h p)
      | err e =>
        rw [serveStream_step_err hr hs]
        exact herr sb bs e
      | ok r =>
        obtain ⟨sb', outs⟩ := r
        rw [serveStream_ok hr hs]
        exact hok sb bs p rest sb' outs hr hs (ih rest.length (by omega) sb' rest rfl)

/-! ### NUL bytes survive lossy UTF-8 decoding -/

theorem decodeRune_width (p0 : Nat) (rest : Bytes) :
    (decodeRune (p0 :: rest)).2 = 1 ∨
    ((decodeRune (p0 :: rest)).2 = 2 ∧ ∃ b1 tl, rest = b1 :: tl ∧ b1 ≠ 0) ∨
    ((decodeRune (p0 :: rest)).2 = 3 ∧ ∃ b1 b2 tl, rest = b1 :: b2 :: tl ∧ b1 ≠ 0 ∧ b2 ≠ 0) ∨
    ((decodeRune (p0 :: rest)).2 = 4 ∧ ∃ b1 b2 b3 tl, rest = b1 :: b2 :: b3 :: tl ∧ b1 ≠ 0 ∧ b2 ≠ 0 ∧ b3 ≠ 0) := by
  simp only [decodeRune]
  repeat' split
  all_goals simp_all [isCont]
  all_goals first
    | omega
    | exact ⟨_, _, ⟨rfl, rfl⟩, by omega, by omega⟩
    | exact ⟨_, _, _, ⟨rfl, rfl, rfl⟩, by omega, by omega, by omega⟩

theorem decodeRune_zero (p0 : Nat) (rest : Bytes) (h : 0 ∈ p0 :: rest) :
    (decodeRune (p0 :: rest)).1 = 0 ∨
      0 ∈ (p0 :: rest).drop (max (decodeRune (p0 :: rest)).2 1) := by
  by_cases hp : p0 = 0
  · subst hp; left; simp [decodeRune]
  · right
    have hr : 0 ∈ rest := by
      rcases List.mem_cons.1 h with h | h
      · exact absurd h.symm hp
      · exact h
    rcases decodeRune_width p0 rest with hw | ⟨hw, b1, tl, rfl, h1⟩ | ⟨hw, b1, b2, tl, rfl, h1, h2⟩ |
      ⟨hw, b1, b2, b3, tl, rfl, h1, h2, h3⟩
    · rw [hw]; simpa using hr
    · rw [hw]; simp at hr ⊢
      rcases hr with hr | hr
      · exact absurd hr.symm h1
      · exact hr
    · rw [hw]; simp at hr ⊢
      rcases hr with hr | hr | hr
      · exact absurd hr.symm h1
      · exact absurd hr.symm h2
      · exact hr
    · rw [hw]; simp at hr ⊢
      rcases hr with hr | hr | hr | hr
      · exact absurd hr.symm h1
      · exact absurd hr.symm h2
      · exact absurd hr.symm h3
      · exact hr

theorem decodeRunesFuel_zero (fuel : Nat) : ∀ (b : Bytes), b.length ≤ fuel → 0 ∈ b →
    0 ∈ decodeRunesFuel fuel b := by
  induction fuel with
  | zero =>
    intro b hl h0
    have : b = [] := List.eq_nil_of_length_eq_zero (by omega)
    subst this; simp at h0
  | succ fuel ih =>
    intro b hl h0
    match b, hl, h0 with
    | p0 :: rest, hl, h0 =>
      simp only [decodeRunesFuel]
      rcases decodeRune_zero p0 rest h0 with h | h
      · rw [h]; simp
      · refine List.mem_cons_of_mem _ (ih _ ?_ h)
        simp only [List.length_drop, List.length_cons] at hl ⊢
        omega

theorem decodeRunes_zero {b : Bytes} (h : 0 ∈ b) : 0 ∈ decodeRunes b :=
  decodeRunesFuel_zero b.length b (Nat.le_refl _) h

end Mqtt
