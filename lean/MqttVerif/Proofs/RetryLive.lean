/-
  Helper lemmas for property C01 (nothing accepted is lost; the client settles once the broker
  stays reachable) about the retry / reconnect model `MqttVerif/Model/Retry.lean`.

  Two developments share one set of per-function specifications:
   * `Keeps`  — conservation: acknowledged + held in `retryQ` never decreases by more than what a
                function was given to carry out (counting, per request);
   * `Step`   — liveness: what a function of the request / task layer leaves alone (`Mono`), that it
                never blocks when `silent` faults are covered by a response timeout, that it only
                touches `retryQ` together with `closeAfterTask`, and that it either leaves the
                connection healthy or consumes a fault.
-/
import MqttVerif.Model.Retry

namespace Mqtt.Retry

/-! ### definitions of the property -/

def Req.needsAck : Req → Bool
  | .pub _ q => q ≥ 1
  | _ => true

/-- the requests whose final acknowledgement the model can log: QoS 1 / 2 publishes, (un)subscribes -/
def Req.ackable : Req → Bool
  | .pub _ q => q == 1 || q == 2
  | _ => true

/-- where a request currently lives inside the client -/
def entryReq : Entry → Req
  | .rePublish m q => .pub m q
  | .rePubRel m => .pub m 2
  | .reSub s => .sub s
  | .reUnsub t => .unsub t
  | .qPub m q => .pub m q
  | .qSub s => .sub s
  | .qUnsub t => .unsub t

def taskReq : Task → Option Req
  | .req r => some r
  | _ => none

def pendingReqs (w : World) : List Req :=
  w.retryQ.map entryReq ++ w.taskQ.filterMap (fun t => match t with | .req r => some r | _ => none)

/-- acknowledged or held in the retry queue -/
def held (w : World) (r : Req) : Nat := w.broker.acked.count r + (w.retryQ.map entryReq).count r

abbrev aliveAt (w : World) (k : Nat) : Bool := (getConn w k).alive

/-! ### connections -/

theorem getConn_setConn (w : World) (k : Nat) (c : Conn) (j : Nat) :
    getConn (setConn w k c) j = if j = k ∧ k < w.conns.length then c else getConn w j := by
  simp only [getConn, setConn, List.getD_eq_getElem?_getD, List.getElem?_set]
  by_cases h : k = j
  · subst h
    by_cases h2 : k < w.conns.length <;> simp [h2]
  · have : ¬ j = k := fun e => h e.symm
    simp [h, this]

theorem alive_logPkt (w : World) (k : Nat) (p : Pkt) (x : Wire) (j : Nat) :
    (getConn (logPkt w k p x) j).alive = (getConn w j).alive := by
  simp only [logPkt, getConn_setConn]
  split
  · next h => simp [h.1]
  · rfl

theorem alive_kill (w : World) (k : Nat) (j : Nat) :
    (getConn (kill w k) j).alive
      = if j = k ∧ k < w.conns.length then false else (getConn w j).alive := by
  simp only [kill, getConn_setConn]
  split <;> rfl

theorem alive_setCtr (w : World) (k : Nat) (x : Nat) (j : Nat) :
    (getConn (setConn w k { getConn w k with ctr := x }) j).alive = (getConn w j).alive := by
  simp only [getConn_setConn]
  split
  · next h => simp [h.1]
  · rfl

/-! ### monotone frame -/

/-- what every function of the request / task layer leaves alone, and what it moves one way only -/
structure Mono (w w' : World) : Prop where
  cfg : w'.cfg = w.cfg
  taskQ : w'.taskQ = w.taskQ
  cli : w'.cli = w.cli
  connReady : w'.connReady = w.connReady
  goroutine : w'.goroutine = w.goroutine
  gConnected : w'.gConnected = w.gConnected
  stopped : w'.stopped = w.stopped
  accepted : w'.accepted = w.accepted
  phase : w'.phase = w.phase
  ctx : w'.ctxCancelled = w.ctxCancelled
  len : w'.conns.length = w.conns.length
  flen : w'.faults.length ≤ w.faults.length
  fsub : ∀ f, f ∈ w'.faults → f ∈ w.faults
  alive : ∀ j, (getConn w' j).alive = true → (getConn w j).alive = true
  stuck : w.stuck = true → w'.stuck = true
  cret : w'.connectReturned = w.connectReturned

theorem Mono.refl (w : World) : Mono w w := by
  constructor <;> simp

theorem Mono.trans {a b c : World} (h1 : Mono a b) (h2 : Mono b c) : Mono a c where
  cfg := h2.cfg.trans h1.cfg
  taskQ := h2.taskQ.trans h1.taskQ
  cli := h2.cli.trans h1.cli
  connReady := h2.connReady.trans h1.connReady
  goroutine := h2.goroutine.trans h1.goroutine
  gConnected := h2.gConnected.trans h1.gConnected
  stopped := h2.stopped.trans h1.stopped
  accepted := h2.accepted.trans h1.accepted
  phase := h2.phase.trans h1.phase
  ctx := h2.ctx.trans h1.ctx
  len := h2.len.trans h1.len
  flen := Nat.le_trans h2.flen h1.flen
  fsub := fun f hf => h1.fsub f (h2.fsub f hf)
  alive := fun j hj => h1.alive j (h2.alive j hj)
  stuck := fun h => h2.stuck (h1.stuck h)
  cret := h2.cret.trans h1.cret

/-- `silent` faults are covered by a response timeout -/
def Sil (w : World) : Prop := Fault.silent ∈ w.faults → w.cfg.respTimeout = true

theorem Mono.sil {w w' : World} (h : Mono w w') (hs : Sil w) : Sil w' := by
  intro hm
  rw [h.cfg]
  exact hs (h.fsub _ hm)

/-- the connection is usable and no failure has been recorded in the running task -/
def Good (k : Nat) (w : World) : Prop := (getConn w k).alive = true ∧ w.closeAfterTask = false

/-- `retryQ` is empty unless a failure has been recorded in the running task -/
def Clean (w : World) : Prop := w.retryQ = [] ∨ w.closeAfterTask = true

structure Step (k : Nat) (w w' : World) : Prop where
  mono : Mono w w'
  catMono : w.closeAfterTask = true → w'.closeAfterTask = true
  clean : Clean w → Clean w'
  nostuck : Sil w → w'.stuck = w.stuck
  good : Good k w → Good k w' ∨ w'.faults.length < w.faults.length

theorem Step.refl (k : Nat) (w : World) : Step k w w :=
  ⟨Mono.refl w, id, id, fun _ => rfl, Or.inl⟩

theorem Step.trans {k : Nat} {a b c : World} (h1 : Step k a b) (h2 : Step k b c) : Step k a c where
  mono := h1.mono.trans h2.mono
  catMono := fun h => h2.catMono (h1.catMono h)
  clean := fun h => h2.clean (h1.clean h)
  nostuck := fun h => (h2.nostuck (h1.mono.sil h)).trans (h1.nostuck h)
  good := fun h => by
    cases h1.good h with
    | inl g =>
      cases h2.good g with
      | inl g2 => exact Or.inl g2
      | inr l => exact Or.inr (Nat.lt_of_lt_of_le l h1.mono.flen)
    | inr l => exact Or.inr (Nat.lt_of_le_of_lt h2.mono.flen l)

/-- conservation: if `w'` is not blocked, neither was `w`, and what is acknowledged or held has
    grown by the requests `reqs` the function was given to carry out -/
def Keeps (reqs : List Req) (w w' : World) : Prop :=
  ∀ r0 : Req, r0.ackable = true → w'.stuck = false →
    w.stuck = false ∧ held w r0 + reqs.count r0 ≤ held w' r0

theorem Keeps.refl (w : World) : Keeps [] w w := by
  intro r0 _ h; simp [h]

theorem Keeps.trans {a b c : World} {r1 r2 : List Req} (h1 : Keeps r1 a b) (h2 : Keeps r2 b c) :
    Keeps (r1 ++ r2) a c := by
  intro r0 hg hc
  have ⟨hb, l2⟩ := h2 r0 hg hc
  have ⟨ha, l1⟩ := h1 r0 hg hb
  refine ⟨ha, ?_⟩
  rw [List.count_append]
  omega

theorem Keeps.weaken {a b : World} {r1 r2 : List Req} (h : Keeps r1 a b)
    (hle : ∀ r0, r2.count r0 ≤ r1.count r0) : Keeps r2 a b := by
  intro r0 hg hc
  have ⟨ha, l1⟩ := h r0 hg hc
  have := hle r0
  exact ⟨ha, by omega⟩

@[simp] theorem Broker.process_acked (b : Broker) (p : Pkt) : (b.process p).acked = b.acked := by
  cases p <;> simp only [Broker.process]
  · simp only [Broker.publish]; repeat' split
    all_goals rfl
  · simp only [Broker.pubrel]; split <;> rfl

/-- nothing of interest changes except connections (monotonically) and the fault script -/
structure Quiet (w w' : World) : Prop where
  mono : Mono w w'
  retryQ : w'.retryQ = w.retryQ
  cat : w'.closeAfterTask = w.closeAfterTask
  acked : w'.broker.acked = w.broker.acked
  stuck : w'.stuck = w.stuck

theorem Quiet.refl (w : World) : Quiet w w := ⟨Mono.refl w, rfl, rfl, rfl, rfl⟩

theorem Quiet.trans {a b c : World} (h1 : Quiet a b) (h2 : Quiet b c) : Quiet a c :=
  ⟨h1.mono.trans h2.mono, h2.retryQ.trans h1.retryQ, h2.cat.trans h1.cat, h2.acked.trans h1.acked,
    h2.stuck.trans h1.stuck⟩

theorem quiet_logPkt (w : World) (k : Nat) (p : Pkt) (x : Wire) : Quiet w (logPkt w k p x) := by
  refine ⟨⟨?_, ?_, ?_, ?_, ?_, ?_, ?_, ?_, ?_, ?_, ?_, ?_, ?_, ?alive, ?_, ?_⟩, ?_, ?_, ?_, ?_⟩
  case alive => intro j; rw [alive_logPkt]; exact id
  all_goals simp [logPkt, setConn]

theorem quiet_kill (w : World) (k : Nat) : Quiet w (kill w k) := by
  refine ⟨⟨?_, ?_, ?_, ?_, ?_, ?_, ?_, ?_, ?_, ?_, ?_, ?_, ?_, ?alive, ?_, ?_⟩, ?_, ?_, ?_, ?_⟩
  case alive => intro j; rw [alive_kill]; split <;> simp
  all_goals simp [kill, setConn]

theorem quiet_setCtr (w : World) (k x : Nat) :
    Quiet w (setConn w k { getConn w k with ctr := x }) := by
  refine ⟨⟨?_, ?_, ?_, ?_, ?_, ?_, ?_, ?_, ?_, ?_, ?_, ?_, ?_, ?alive, ?_, ?_⟩, ?_, ?_, ?_, ?_⟩
  case alive => intro j; rw [alive_setCtr]; exact id
  all_goals simp [setConn]

theorem quiet_process (w : World) (p : Pkt) : Quiet w { w with broker := w.broker.process p } := by
  refine ⟨⟨?_, ?_, ?_, ?_, ?_, ?_, ?_, ?_, ?_, ?_, ?_, ?_, ?_, ?alive, ?_, ?_⟩, ?_, ?_, ?_, ?_⟩
  case alive => intro j; exact id
  all_goals simp

theorem quiet_pid (w : World) (x : List (Nat × Nat)) : Quiet w { w with pid := x } := by
  refine ⟨⟨?_, ?_, ?_, ?_, ?_, ?_, ?_, ?_, ?_, ?_, ?_, ?_, ?_, ?alive, ?_, ?_⟩, ?_, ?_, ?_, ?_⟩
  case alive => intro j; exact id
  all_goals simp

theorem mono_stuck (w : World) : Mono w { w with stuck := true } := by
  refine ⟨?_, ?_, ?_, ?_, ?_, ?_, ?_, ?_, ?_, ?_, ?_, ?_, ?_, ?alive, ?_, ?_⟩
  case alive => intro j; exact id
  all_goals simp

theorem quiet_nextFault (w : World) : Quiet w (nextFault w).2 := by
  unfold nextFault
  split
  · exact Quiet.refl w
  · next f rest h =>
    refine ⟨⟨?_, ?_, ?_, ?_, ?_, ?_, ?_, ?_, ?_, ?_, ?_, ?_, ?_, ?alive, ?_, ?_⟩, ?_, ?_, ?_, ?_⟩
    case alive => intro j; exact id
    all_goals simp [h]
    intro f hf; exact Or.inr hf

theorem nextFault_notOk (w : World) (h : (nextFault w).1 ≠ .ok) :
    (nextFault w).2.faults.length < w.faults.length ∧ (nextFault w).1 ∈ w.faults := by
  unfold nextFault at *
  split at h
  · exact absurd rfl h
  · next f rest hf => simp [hf]

structure SendSpec (k : Nat) (w w' : World) (s : Sent) : Prop where
  mono : Mono w w'
  retryQ : w'.retryQ = w.retryQ
  cat : w'.closeAfterTask = w.closeAfterTask
  acked : w'.broker.acked = w.broker.acked
  out : match s with
    | .acked => w'.stuck = w.stuck ∧
        ((getConn w k).alive = true → (getConn w' k).alive = true ∨ w'.faults.length < w.faults.length)
    | .stuck => w'.stuck = true ∧ ¬ Sil w ∧ w'.faults.length < w.faults.length
    | _ => w'.stuck = w.stuck ∧ ((getConn w k).alive = true → w'.faults.length < w.faults.length)

theorem SendSpec.ofQuiet {k : Nat} {w w' : World} {s : Sent} (q : Quiet w w')
    (out : match s with
    | .acked => ((getConn w k).alive = true → (getConn w' k).alive = true ∨ w'.faults.length < w.faults.length)
    | .stuck => False
    | _ => ((getConn w k).alive = true → w'.faults.length < w.faults.length)) : SendSpec k w w' s := by
  refine ⟨q.mono, q.retryQ, q.cat, q.acked, ?_⟩
  cases s <;> simp at out ⊢ <;> exact ⟨q.stuck, out⟩

theorem nextFault_getConn (w : World) (j : Nat) : getConn (nextFault w).2 j = getConn w j := by
  unfold nextFault; split <;> rfl

theorem send_spec (w : World) (k : Nat) (p : Pkt) (waits : Bool) :
    SendSpec k w (send w k p waits).1 (send w k p waits).2 := by
  unfold send
  split
  · next h =>
    have h' : (getConn w k).alive = false := by simpa using h
    exact SendSpec.ofQuiet (quiet_logPkt ..) (by simp [h'])
  · next h =>
    have h' : (getConn w k).alive = true := by simpa using h
    have q1 := quiet_nextFault w
    have nf := nextFault_notOk w
    have gc := nextFault_getConn w k
    rcases hnf : nextFault w with ⟨f, w1⟩
    rw [hnf] at q1 nf gc
    simp only at q1 nf gc ⊢
    have q2 := q1.trans (quiet_logPkt w1 k p (.sent f))
    cases f <;> simp only
    · refine SendSpec.ofQuiet (q2.trans (quiet_process ..)) ?_
      simp only; intro _; left
      show (getConn (logPkt w1 k p (.sent .ok)) k).alive = true
      rw [alive_logPkt, gc]; exact h'
    · have l := (nf (by decide)).1
      exact SendSpec.ofQuiet (q2.trans (quiet_kill ..)) (by simp only; intro _; exact l)
    · have l := (nf (by decide)).1
      refine SendSpec.ofQuiet (q2.trans (quiet_kill ..)) ?_
      cases waits <;> simp only [↓reduceIte, Bool.false_eq_true] <;> first | exact fun _ => l | exact fun _ => Or.inr l
    · have l := (nf (by decide)).1
      refine SendSpec.ofQuiet ((q2.trans (quiet_process ..)).trans (quiet_kill ..)) ?_
      cases waits <;> simp only [↓reduceIte, Bool.false_eq_true] <;> first | exact fun _ => l | exact fun _ => Or.inr l
    · have l := (nf (by decide)).1
      have q3 := q2.trans (quiet_process (logPkt w1 k p (.sent .silent)) p)
      split
      · exact SendSpec.ofQuiet q3 (by simp only; intro _; exact Or.inr l)
      · split
        · exact SendSpec.ofQuiet q3 (by simp only; intro _; exact l)
        · next hw hr =>
          refine ⟨q3.mono.trans (mono_stuck _), q3.retryQ, q3.cat, q3.acked, ?_⟩
          simp only
          refine ⟨trivial, fun hs => hr ?_, l⟩
          have := hs (nf (by decide)).2
          rw [← q3.mono.cfg] at this
          exact this


theorem mono_broker (w : World) (b : Broker) : Mono w { w with broker := b } := by
  refine ⟨?_, ?_, ?_, ?_, ?_, ?_, ?_, ?_, ?_, ?_, ?_, ?_, ?_, ?alive, ?_, ?_⟩
  case alive => intro j; exact id
  all_goals simp

theorem Quiet.step {k : Nat} {a b : World} (q : Quiet a b)
    (ha : (getConn a k).alive = true → (getConn b k).alive = true ∨ b.faults.length < a.faults.length) :
    Step k a b where
  mono := q.mono
  catMono := fun h => q.cat.trans h
  clean := fun h => by unfold Clean at *; rw [q.retryQ, q.cat]; exact h
  nostuck := fun _ => q.stuck
  good := fun h => by
    cases ha h.1 with
    | inl g => exact Or.inl ⟨g, q.cat.trans h.2⟩
    | inr l => exact Or.inr l

theorem Quiet.keeps {a b : World} (q : Quiet a b) : Keeps [] a b := by
  intro r0 _ hs
  refine ⟨q.stuck ▸ hs, ?_⟩
  simp [held, q.retryQ, q.acked]

/-- the world after the final acknowledgement of `r` has been logged -/
def ack (w : World) (r : Req) : World :=
  { w with broker := { w.broker with acked := w.broker.acked ++ [r] } }

theorem step_ack (k : Nat) (w : World) (r : Req) : Step k w (ack w r) where
  mono := mono_broker w _
  catMono := id
  clean := id
  nostuck := fun _ => rfl
  good := Or.inl

theorem keeps_ack (w : World) (r : Req) : Keeps [r] w (ack w r) := by
  intro r0 _ hs
  refine ⟨hs, ?_⟩
  simp only [held, ack, List.count_append]
  omega

theorem keeps_nonack (w : World) (r : Req) (h : r.ackable = false) : Keeps [r] w w := by
  intro r0 h0 hs
  refine ⟨hs, ?_⟩
  have : r ≠ r0 := by intro e; rw [e, h0] at h; exact absurd h (by decide)
  simp [this]

structure OutSpec (k : Nat) (r : Req) (w w' : World) (o : Outcome) : Prop where
  step : Step k w w'
  out : match o with
    | .fail (some h) _ => entryReq h = r ∧ Keeps [] w w' ∧
        ((getConn w k).alive = true → w'.faults.length < w.faults.length)
    | .stuck => w'.stuck = true
    | _ => Keeps [r] w w'

theorem OutSpec.pre {k : Nat} {r : Req} {a b c : World} {o : Outcome} (q : Quiet a b)
    (ha : (getConn a k).alive = true → (getConn b k).alive = true ∨ b.faults.length < a.faults.length)
    (h : OutSpec k r b c o) : OutSpec k r a c o := by
  refine ⟨(q.step ha).trans h.step, ?_⟩
  have := h.out
  have lbc := h.step.mono.flen
  split <;> simp only at this
  · obtain ⟨e, kp, al⟩ := this
    refine ⟨e, q.keeps.trans kp, fun hal => ?_⟩
    cases ha hal with
    | inl g => exact Nat.lt_of_lt_of_le (al g) q.mono.flen
    | inr l => exact Nat.lt_of_le_of_lt lbc l
  · exact this
  · exact q.keeps.trans this

theorem SendSpec.quiet {k : Nat} {w w' : World} {s : Sent} (h : SendSpec k w w' s) (hs : s ≠ .stuck) :
    Quiet w w' := by
  refine ⟨h.mono, h.retryQ, h.cat, h.acked, ?_⟩
  have := h.out
  cases s <;> simp only at this
  · exact this.1
  · exact this.1
  · exact this.1
  · exact absurd rfl hs

/-- the common shape of `relAttempt`, `subAttempt`, `unsubAttempt` (and QoS 1 `pubAttempt`) -/
theorem outSpec_ofSend {k : Nat} {r : Req} {w w1 : World} {s : Sent} (hs : SendSpec k w w1 s)
    (h : Entry) (hh : entryReq h = r) :
    OutSpec k r w (match s with | .acked => ack w1 r | _ => w1)
      (match s with | .acked => .done | .stuck => .stuck | s => .fail (some h) (errOf s)) := by
  cases s
  · have q := hs.quiet (by decide)
    have o := hs.out
    simp only at o ⊢
    exact ⟨(q.step o.2).trans (step_ack k w1 r), by simpa using q.keeps.trans (keeps_ack w1 r)⟩
  · have q := hs.quiet (by decide)
    have o := hs.out
    simp only at o ⊢
    exact ⟨q.step (fun ha => Or.inr (o.2 ha)), hh, q.keeps, o.2⟩
  · have q := hs.quiet (by decide)
    have o := hs.out
    simp only at o ⊢
    exact ⟨q.step (fun ha => Or.inr (o.2 ha)), hh, q.keeps, o.2⟩
  · have o := hs.out
    simp only at o ⊢
    refine ⟨⟨hs.mono, fun h => hs.cat.trans h, fun h => ?_, fun h => absurd h o.2.1, fun h => ?_⟩, o.1⟩
    · unfold Clean at *; rw [hs.retryQ, hs.cat]; exact h
    · exact Or.inr o.2.2


theorem relAttempt_spec (w : World) (k m id : Nat) :
    OutSpec k (.pub m 2) w (relAttempt w k m id).1 (relAttempt w k m id).2 := by
  unfold relAttempt
  have hs := send_spec w k (.pubrel id m) true
  generalize send w k (.pubrel id m) true = x at hs ⊢
  obtain ⟨w1, s⟩ := x
  have := outSpec_ofSend hs (.rePubRel m) rfl
  cases s <;> exact this

theorem subAttempt_spec (w : World) (k : Nat) (subs : List Subscription) :
    OutSpec k (.sub subs) w (subAttempt w k subs).1 (subAttempt w k subs).2 := by
  unfold subAttempt
  simp only
  generalize hw0 : setConn w k { getConn w k with ctr := (newID (getConn w k).ctr).1 } = w0
  have q : Quiet w w0 := hw0 ▸ quiet_setCtr w k _
  have al : (getConn w k).alive = true → (getConn w0 k).alive = true ∨ w0.faults.length < w.faults.length := by
    intro h; left; rw [← hw0, alive_setCtr]; exact h
  refine OutSpec.pre q al ?_
  have hs := send_spec w0 k (.subscribe (newID (getConn w k).ctr).2 subs) true
  generalize send w0 k (.subscribe (newID (getConn w k).ctr).2 subs) true = x at hs ⊢
  obtain ⟨w1, s⟩ := x
  have := outSpec_ofSend hs (.reSub subs) rfl
  cases s <;> exact this

theorem unsubAttempt_spec (w : World) (k : Nat) (ts : List Bytes) :
    OutSpec k (.unsub ts) w (unsubAttempt w k ts).1 (unsubAttempt w k ts).2 := by
  unfold unsubAttempt
  simp only
  generalize hw0 : setConn w k { getConn w k with ctr := (newID (getConn w k).ctr).1 } = w0
  have q : Quiet w w0 := hw0 ▸ quiet_setCtr w k _
  have al : (getConn w k).alive = true → (getConn w0 k).alive = true ∨ w0.faults.length < w.faults.length := by
    intro h; left; rw [← hw0, alive_setCtr]; exact h
  refine OutSpec.pre q al ?_
  have hs := send_spec w0 k (.unsubscribe (newID (getConn w k).ctr).2 ts) true
  generalize send w0 k (.unsubscribe (newID (getConn w k).ctr).2 ts) true = x at hs ⊢
  obtain ⟨w1, s⟩ := x
  have := outSpec_ofSend hs (.reUnsub ts) rfl
  cases s <;> exact this


/-- `pubAttempt`, first part: the packet identifier is assigned once -/
def pubPid (w : World) (k m : Nat) : World × Nat :=
  match lookupPid w m with
  | some id => (w, id)
  | none =>
    let c := getConn w k
    let (ctr', id) := newID c.ctr
    (setConn { w with pid := w.pid ++ [(m, id)] } k { c with ctr := ctr' }, id)

/-- `pubAttempt`, last part: what follows the PUBLISH -/
def pubAfter (w : World) (s : Sent) (k m qos id : Nat) : World × Outcome :=
  match s with
  | .acked =>
    if qos = 2 then relAttempt w k m id
    else if qos = 1 then ({ w with broker := { w.broker with acked := w.broker.acked ++ [.pub m 1] } }, .done)
    else (w, .done)
  | .stuck => (w, .stuck)
  | s => (w, .fail (if qos = 0 then none else some (.rePublish m qos)) (errOf s))

theorem pubAttempt_eq (w : World) (k m qos : Nat) (dup : Bool) :
    pubAttempt w k m qos dup =
      pubAfter (send (pubPid w k m).1 k (.publish m qos (pubPid w k m).2 dup) (qos ≠ 0)).1
        (send (pubPid w k m).1 k (.publish m qos (pubPid w k m).2 dup) (qos ≠ 0)).2 k m qos
        (pubPid w k m).2 := rfl

theorem pubPid_spec (w : World) (k m : Nat) :
    Quiet w (pubPid w k m).1 ∧
      ((getConn w k).alive = true → (getConn (pubPid w k m).1 k).alive = true) := by
  unfold pubPid
  split
  · exact ⟨Quiet.refl w, id⟩
  · refine ⟨(quiet_pid w _).trans (quiet_setCtr _ k _), fun h => ?_⟩
    exact (alive_setCtr { w with pid := w.pid ++ [(m, (newID (getConn w k).ctr).2)] } k _ k).trans h

theorem keeps_pub_nonack (w : World) (m qos : Nat) (h1 : ¬ qos = 2) (h2 : ¬ qos = 1) :
    Keeps [.pub m qos] w w := by
  apply keeps_nonack
  simp [Req.ackable, h1, h2]

theorem pubAttempt_spec (w : World) (k m qos : Nat) (dup : Bool) :
    OutSpec k (.pub m qos) w (pubAttempt w k m qos dup).1 (pubAttempt w k m qos dup).2 := by
  rw [pubAttempt_eq]
  have hp := pubPid_spec w k m
  generalize pubPid w k m = x at hp ⊢
  obtain ⟨w0, id⟩ := x
  simp only at hp ⊢
  refine OutSpec.pre hp.1 (fun h => Or.inl (hp.2 h)) ?_
  have hs := send_spec w0 k (.publish m qos id dup) (decide (qos ≠ 0))
  generalize send w0 k (.publish m qos id dup) (decide (qos ≠ 0)) = x at hs ⊢
  obtain ⟨w1, s⟩ := x
  simp only at hs ⊢
  cases s
  · -- acked
    have q := hs.quiet (by decide)
    have o := hs.out
    simp only at o
    unfold pubAfter
    simp only
    split
    · next h2 =>
      subst h2
      exact OutSpec.pre q o.2 (relAttempt_spec w1 k m id)
    · split
      · next h1 =>
        subst h1
        exact ⟨(q.step o.2).trans (step_ack k w1 _), (by simpa using q.keeps.trans (keeps_ack w1 (.pub m 1)) : Keeps [.pub m 1] w0 (ack w1 (.pub m 1)))⟩
      · next h2 h1 =>
        exact ⟨q.step o.2, by simpa using q.keeps.trans (keeps_pub_nonack w1 m qos h2 h1)⟩
  · have q := hs.quiet (by decide)
    have o := hs.out
    simp only at o
    unfold pubAfter
    simp only
    refine ⟨q.step (fun ha => Or.inr (o.2 ha)), ?_⟩
    by_cases h0 : qos = 0
    · subst h0
      simpa using q.keeps.trans (keeps_pub_nonack w1 m 0 (by decide) (by decide))
    · simp only [h0, ↓reduceIte]
      exact ⟨rfl, q.keeps, o.2⟩
  · have q := hs.quiet (by decide)
    have o := hs.out
    simp only at o
    unfold pubAfter
    simp only
    refine ⟨q.step (fun ha => Or.inr (o.2 ha)), ?_⟩
    by_cases h0 : qos = 0
    · subst h0
      simpa using q.keeps.trans (keeps_pub_nonack w1 m 0 (by decide) (by decide))
    · simp only [h0, ↓reduceIte]
      exact ⟨rfl, q.keeps, o.2⟩
  · have := outSpec_ofSend (r := .pub m qos) hs (.rePublish m qos) rfl
    exact this


/-- discharge `Quiet w w'` when `w'` is `w` with some bookkeeping fields replaced -/
macro "quiet_triv" : tactic =>
  `(tactic| (refine ⟨⟨?_, ?_, ?_, ?_, ?_, ?_, ?_, ?_, ?_, ?_, ?_, ?_, ?_, ?alive, ?_, ?_⟩, ?_, ?_, ?_, ?_⟩
             case alive => intro j; exact id
             all_goals simp))

structure TaskSpec (k : Nat) (reqs : List Req) (w w' : World) : Prop where
  step : Step k w w'
  keeps : Keeps reqs w w'

theorem TaskSpec.refl (k : Nat) (w : World) : TaskSpec k [] w w := ⟨Step.refl k w, Keeps.refl w⟩

theorem TaskSpec.trans {k : Nat} {r1 r2 : List Req} {a b c : World} (h1 : TaskSpec k r1 a b)
    (h2 : TaskSpec k r2 b c) : TaskSpec k (r1 ++ r2) a c :=
  ⟨h1.step.trans h2.step, h1.keeps.trans h2.keeps⟩

theorem Quiet.task {k : Nat} {a b : World} (q : Quiet a b)
    (ha : (getConn a k).alive = true → (getConn b k).alive = true) : TaskSpec k [] a b :=
  ⟨q.step (fun h => Or.inl (ha h)), q.keeps⟩

/-- a failure is recorded: handle(s) queued, the connection is marked for closing -/
def requeue (w : World) (e : ErrKind) (hs : List Entry) : World :=
  { w with onErrors := w.onErrors ++ [e], retryQ := w.retryQ ++ hs, closeAfterTask := true }

theorem step_requeue {k : Nat} {w w1 : World} (e : ErrKind) (hs : List Entry) (h : Step k w w1)
    (al : (getConn w k).alive = true → w1.faults.length < w.faults.length) :
    Step k w (requeue w1 e hs) where
  mono := h.mono.trans (by
    refine ⟨?_, ?_, ?_, ?_, ?_, ?_, ?_, ?_, ?_, ?_, ?_, ?_, ?_, ?alive, ?_, ?_⟩
    case alive => intro j; exact id
    all_goals simp [requeue])
  catMono := fun _ => rfl
  clean := fun _ => Or.inr rfl
  nostuck := fun hs => h.nostuck hs
  good := fun g => Or.inr (al g.1)

theorem keeps_requeue {w w1 : World} {reqs : List Req} (e : ErrKind) (hs : List Entry)
    (h : Keeps reqs w w1) : Keeps (reqs ++ hs.map entryReq) w (requeue w1 e hs) := by
  intro r0 hg hst
  have ⟨a, b⟩ := h r0 hg hst
  refine ⟨a, ?_⟩
  simp only [held, requeue, List.map_append, List.count_append] at b ⊢
  omega

/-- a request is queued behind earlier failures without being transmitted -/
def enqueue (w : World) (e : Entry) : World := { w with retryQ := w.retryQ ++ [e] }

theorem task_enqueue (k : Nat) (w : World) (e : Entry) (hne : w.retryQ.isEmpty = false) :
    TaskSpec k [entryReq e] w (enqueue w e) := by
  refine ⟨⟨?_, id, ?_, fun _ => rfl, Or.inl⟩, ?_⟩
  · refine ⟨?_, ?_, ?_, ?_, ?_, ?_, ?_, ?_, ?_, ?_, ?_, ?_, ?_, ?alive, ?_, ?_⟩
    case alive => intro j; exact id
    all_goals simp [enqueue]
  · intro c
    cases c with
    | inl h => simp [h] at hne
    | inr h => exact Or.inr h
  · intro r0 _ hst
    refine ⟨hst, ?_⟩
    simp only [held, enqueue, List.map_append, List.count_append, List.map_cons, List.map_nil]
    omega

theorem absorb_spec {k : Nat} {r : Req} {w w1 : World} {o : Outcome} (h : OutSpec k r w w1 o) :
    TaskSpec k [r] w (absorb w1 o) := by
  have out := h.out
  unfold absorb
  split <;> simp only at out
  · exact ⟨h.step, out⟩
  · exact ⟨h.step, fun r0 _ hst => by rw [out] at hst; exact absurd hst (by decide)⟩
  · exact ⟨h.step, out⟩
  · next hd e =>
    have kp : Keeps [r] w (requeue w1 e [hd]) := by simpa [out.1] using keeps_requeue e [hd] out.2.1
    exact ⟨step_requeue e [hd] h.step out.2.2, kp⟩

theorem firstPub_spec (w : World) (k m qos : Nat) : TaskSpec k [.pub m qos] w (firstPub w k m qos) :=
  absorb_spec (pubAttempt_spec w k m qos false)

theorem firstSub_spec (w : World) (k : Nat) (subs : List Subscription) :
    TaskSpec k [.sub subs] w (firstSub w k subs) :=
  absorb_spec (subAttempt_spec w k subs)

theorem firstUnsub_spec (w : World) (k : Nat) (ts : List Bytes) :
    TaskSpec k [.unsub ts] w (firstUnsub w k ts) :=
  absorb_spec (unsubAttempt_spec w k ts)

theorem quiet_subEst (w : World) (x : SubList) : Quiet w { w with subEst := x } := by quiet_triv

theorem subscribeTask_spec (w : World) (k : Nat) (subs : List Subscription) :
    TaskSpec k [.sub subs] w (subscribeTask w k subs) := by
  unfold subscribeTask
  have t0 : TaskSpec k [] w { w with subEst := applySubs w.subEst subs } :=
    (quiet_subEst w (applySubs w.subEst subs)).task id
  generalize ({ w with subEst := applySubs w.subEst subs } : World) = w0 at t0 ⊢
  simp only
  split
  · exact t0.trans (firstSub_spec w0 k subs)
  · next h => exact t0.trans (task_enqueue k w0 (.qSub subs) (by simpa using h))

theorem resubLoop_spec (k : Nat) (l : List Subscription) (w : World) :
    TaskSpec k [] w (resubLoop w k l) := by
  induction l generalizing w with
  | nil => exact TaskSpec.refl k w
  | cons s rest ih =>
    unfold resubLoop
    split
    · exact TaskSpec.refl k w
    · have h1 := subscribeTask_spec w k [s]
      have h2 := h1.trans (ih (subscribeTask w k [s]))
      exact ⟨h2.step, h2.keeps.weaken (by simp)⟩

theorem runEntry_spec (w : World) (k : Nat) (e : Entry) :
    OutSpec k (entryReq e) w (runEntry w k e).1 (runEntry w k e).2 := by
  cases e <;> simp only [runEntry, entryReq]
  · exact pubAttempt_spec ..
  · exact relAttempt_spec ..
  · exact subAttempt_spec ..
  · exact unsubAttempt_spec ..
  · exact ⟨(firstPub_spec ..).step, (firstPub_spec ..).keeps⟩
  · exact ⟨(firstSub_spec ..).step, (firstSub_spec ..).keeps⟩
  · exact ⟨(firstUnsub_spec ..).step, (firstUnsub_spec ..).keeps⟩


theorem quiet_totalRetries (w : World) (x : Nat) : Quiet w { w with totalRetries := x } := by quiet_triv

theorem keeps_of_stuck {reqs : List Req} {w w' : World} (h : w'.stuck = true) : Keeps reqs w w' :=
  fun _ _ hst => by rw [h] at hst; exact absurd hst (by decide)

/-- the untried rest stays behind a queued closure that failed -/
theorem task_keepRest (k : Nat) (w : World) (rest : List Entry) (hc : w.closeAfterTask = true) :
    TaskSpec k (rest.map entryReq) w { w with retryQ := w.retryQ ++ rest } := by
  refine ⟨⟨?_, id, fun _ => Or.inr hc, fun _ => rfl, fun g => ?_⟩, ?_⟩
  · refine ⟨?_, ?_, ?_, ?_, ?_, ?_, ?_, ?_, ?_, ?_, ?_, ?_, ?_, ?alive, ?_, ?_⟩
    case alive => intro j; exact id
    all_goals simp
  · rw [g.2] at hc; exact absurd hc (by decide)
  · intro r0 _ hst
    refine ⟨hst, ?_⟩
    simp only [held, List.map_append, List.count_append]
    omega

/-- `retryLoop`, what follows `runEntry` -/
def retryAfter (w : World) (o : Outcome) (k : Nat) (rest : List Entry) : World :=
  match o with
  | .fail (some h) err => requeue w err ([h] ++ rest)
  | .stuck => w
  | _ => if w.closeAfterTask then { w with retryQ := w.retryQ ++ rest } else retryLoop w k rest

theorem retryLoop_cons (w : World) (k : Nat) (e : Entry) (rest : List Entry) :
    retryLoop w k (e :: rest) =
      if w.stuck then w
      else retryAfter (runEntry { w with totalRetries := w.totalRetries + 1 } k e).1
        (runEntry { w with totalRetries := w.totalRetries + 1 } k e).2 k rest := by
  rw [retryLoop]
  split
  · rfl
  · unfold retryAfter requeue
    simp only [List.append_assoc]
    rfl

theorem retryLoop_spec (k : Nat) (es : List Entry) (w : World) :
    TaskSpec k (es.map entryReq) w (retryLoop w k es) := by
  induction es generalizing w with
  | nil => exact TaskSpec.refl k w
  | cons e rest ih =>
    rw [retryLoop_cons]
    split
    · next hst => exact ⟨Step.refl k w, keeps_of_stuck hst⟩
    · have t0 : TaskSpec k [] w { w with totalRetries := w.totalRetries + 1 } :=
        (quiet_totalRetries w _).task id
      generalize ({ w with totalRetries := w.totalRetries + 1 } : World) = w0 at t0 ⊢
      have hr := runEntry_spec w0 k e
      generalize runEntry w0 k e = x at hr ⊢
      obtain ⟨w1, o⟩ := x
      have out := hr.out
      simp only at hr out ⊢
      unfold retryAfter
      split <;> simp only at out
      · next h err =>
        have kp : Keeps (List.map entryReq (e :: rest)) w0 (requeue w1 err ([h] ++ rest)) := by
          simpa [out.1] using keeps_requeue err ([h] ++ rest) out.2.1
        have t1 : TaskSpec k (List.map entryReq (e :: rest)) w0 (requeue w1 err ([h] ++ rest)) :=
          ⟨step_requeue err _ hr.step out.2.2, kp⟩
        exact t0.trans t1
      · exact ⟨t0.step.trans hr.step, keeps_of_stuck out⟩
      · have t1 : TaskSpec k [entryReq e] w0 w1 := ⟨hr.step, out⟩
        split
        · next hc => exact t0.trans (t1.trans (task_keepRest k w1 rest hc))
        · exact t0.trans (t1.trans (ih w1))


def taskReqs : Task → List Req
  | .req r => [r]
  | _ => []

theorem step_clearRetryQ (k : Nat) (w : World) : Step k w { w with retryQ := [] } := by
  refine ⟨?_, id, fun _ => Or.inl rfl, fun _ => rfl, Or.inl⟩
  refine ⟨?_, ?_, ?_, ?_, ?_, ?_, ?_, ?_, ?_, ?_, ?_, ?_, ?_, ?alive, ?_, ?_⟩
  case alive => intro j; exact id
  all_goals simp

theorem runTask_retry (w : World) (k : Nat) :
    Step k w (runTask w k .retry) ∧ Keeps [] w (runTask w k .retry) ∧ Clean (runTask w k .retry) := by
  simp only [runTask]
  have h := retryLoop_spec k w.retryQ { w with retryQ := [] }
  refine ⟨(step_clearRetryQ k w).trans h.step, ?_, h.step.clean (Or.inl rfl)⟩
  intro r0 hg hst
  have ⟨a, b⟩ := h.keeps r0 hg hst
  refine ⟨a, ?_⟩
  simp only [held, List.map_nil, List.count_nil, Nat.add_zero] at b ⊢
  omega

theorem quiet_disconnectTask (w : World) (k : Nat) : Quiet w (runTask w k .disconnect) := by
  simp only [runTask]
  split
  · exact (quiet_logPkt ..).trans (quiet_kill ..)
  · exact quiet_logPkt ..

theorem runTask_req (w : World) (k : Nat) (r : Req) : TaskSpec k [r] w (runTask w k (.req r)) := by
  cases r with
  | pub m qos =>
    simp only [runTask]
    split
    · exact firstPub_spec ..
    · next h =>
      split
      · exact task_enqueue k w (.qPub m qos) (by simpa using h)
      · next hq =>
        have : qos = 0 := by omega
        subst this
        exact ⟨Step.refl k w, keeps_pub_nonack w m 0 (by decide) (by decide)⟩
  | sub subs => exact subscribeTask_spec w k subs
  | unsub ts =>
    simp only [runTask]
    have t0 : TaskSpec k [] w { w with subEst := applyUnsubs w.subEst ts } :=
      (quiet_subEst w _).task id
    split
    · exact t0.trans (firstUnsub_spec _ k ts)
    · next h =>
      exact t0.trans (task_enqueue k { w with subEst := applyUnsubs w.subEst ts } (.qUnsub ts)
        (by simpa using h))

theorem runTask_resub (w : World) (k : Nat) : TaskSpec k [] w (runTask w k .resubscribe) := by
  simp only [runTask]
  exact ((quiet_subEst w []).task id).trans (resubLoop_spec k w.subEst _)

theorem runTask_step (w : World) (k : Nat) (t : Task) (ht : t ≠ .disconnect) :
    Step k w (runTask w k t) := by
  cases t with
  | req r => exact (runTask_req w k r).step
  | resubscribe => exact (runTask_resub w k).step
  | retry => exact (runTask_retry w k).1
  | disconnect => exact absurd rfl ht

theorem runTask_keeps (w : World) (k : Nat) (t : Task) : Keeps (taskReqs t) w (runTask w k t) := by
  cases t with
  | req r => exact (runTask_req w k r).keeps
  | resubscribe => exact (runTask_resub w k).keeps
  | retry => exact (runTask_retry w k).2.1
  | disconnect => exact (quiet_disconnectTask w k).keeps

theorem runTask_mono (w : World) (k : Nat) (t : Task) : Mono w (runTask w k t) := by
  cases t with
  | req r => exact (runTask_req w k r).step.mono
  | resubscribe => exact (runTask_resub w k).step.mono
  | retry => exact (runTask_retry w k).1.mono
  | disconnect => exact (quiet_disconnectTask w k).mono


/-- `runTasks`: a task that recorded a failure closes the connection -/
def afterTask (w : World) (k : Nat) : World :=
  if w.closeAfterTask then { kill w k with gConnected := false, closeAfterTask := false } else w

/-- `runTasks`: the state in which task `t` is run -/
def popTask (w : World) (rest : List Task) : World :=
  { w with gConnected := true, taskQ := rest, totalTasks := w.totalTasks + 1 }

theorem runTasks_succ (fuel : Nat) (w : World) :
    runTasks (fuel + 1) w =
      if ¬ w.goroutine ∨ w.stuck then w
      else if ¬ w.gConnected ∧ ¬ w.connReady then w
      else match w.taskQ, w.cli with
        | [], _ => { w with gConnected := true }
        | _, none => { w with gConnected := true }
        | t :: rest, some k =>
          if (runTask (popTask w rest) k t).stuck then runTask (popTask w rest) k t
          else runTasks fuel (afterTask (runTask (popTask w rest) k t) k) := by
  rw [runTasks]
  rfl


/-! ### conservation through the task goroutine and the events -/

def queued (w : World) (r0 : Req) : Nat := (w.taskQ.filterMap taskReq).count r0

/-- acknowledged, held in the retry queue, or waiting in the task queue -/
def total (w : World) (r0 : Req) : Nat := held w r0 + queued w r0

/-- what conservation needs of a world -/
def core (w : World) : List Req × List Req × List Entry × List Req × Bool :=
  (w.accepted, w.broker.acked, w.retryQ, w.taskQ.filterMap taskReq, w.stuck)

/-- whatever has been accepted in between is accounted for -/
def KeepsAll (w w' : World) : Prop :=
  ∀ r0 : Req, r0.ackable = true → w'.stuck = false →
    w.stuck = false ∧ w'.accepted.count r0 + total w r0 ≤ w.accepted.count r0 + total w' r0

theorem KeepsAll.refl (w : World) : KeepsAll w w := fun _ _ h => ⟨h, Nat.le_refl _⟩

theorem KeepsAll.trans {a b c : World} (h1 : KeepsAll a b) (h2 : KeepsAll b c) : KeepsAll a c := by
  intro r0 hg hc
  have ⟨hb, l2⟩ := h2 r0 hg hc
  have ⟨ha, l1⟩ := h1 r0 hg hb
  exact ⟨ha, by omega⟩

theorem KeepsAll.ofCore {w w' : World} (h : core w' = core w) : KeepsAll w w' := by
  simp only [core, Prod.mk.injEq] at h
  obtain ⟨h1, h2, h3, h4, h5⟩ := h
  intro r0 _ hs
  refine ⟨h5 ▸ hs, ?_⟩
  simp only [total, held, queued, h1, h2, h3, h4]
  omega

theorem count_taskReq_cons (t : Task) (rest : List Task) (r0 : Req) :
    ((t :: rest).filterMap taskReq).count r0 = (taskReqs t).count r0 + (rest.filterMap taskReq).count r0 := by
  cases t <;> simp [taskReq, taskReqs, List.filterMap_cons, List.count_cons]
  omega

theorem keepsAll_runTask (w : World) (k : Nat) (t : Task) (rest : List Task) (hq : w.taskQ = t :: rest) :
    KeepsAll w (runTask (popTask w rest) k t) := by
  intro r0 hg hs
  have ⟨a, b⟩ := runTask_keeps (popTask w rest) k t r0 hg hs
  have m := runTask_mono (popTask w rest) k t
  refine ⟨a, ?_⟩
  simp only [total, queued, m.taskQ, m.accepted, hq, count_taskReq_cons]
  simp only [held, popTask] at b ⊢
  omega

theorem keepsAll_afterTask (w : World) (k : Nat) : KeepsAll w (afterTask w k) := by
  unfold afterTask
  split
  · exact KeepsAll.ofCore rfl
  · exact KeepsAll.refl w

theorem keepsAll_runTasks (fuel : Nat) (w : World) : KeepsAll w (runTasks fuel w) := by
  induction fuel generalizing w with
  | zero => exact KeepsAll.refl w
  | succ fuel ih =>
    rw [runTasks_succ]
    split
    · exact KeepsAll.refl w
    · split
      · exact KeepsAll.refl w
      · split
        · exact KeepsAll.ofCore rfl
        · exact KeepsAll.ofCore rfl
        · next t rest k hq _ =>
          have h1 := keepsAll_runTask w k t rest hq
          split
          · exact h1
          · exact h1.trans ((keepsAll_afterTask _ k).trans (ih _))

theorem keepsAll_loopReact (w : World) : KeepsAll w (loopReact w) := by
  unfold loopReact
  split
  · split
    · exact KeepsAll.refl w
    · split <;> exact KeepsAll.ofCore rfl
  · exact KeepsAll.refl w

theorem keepsAll_progress (w : World) : KeepsAll w (progress w) :=
  (keepsAll_runTasks _ w).trans (keepsAll_loopReact _)


/-- `step (.connackOk …)`, first part: CONNACK accepted, the broker's session, the pushed messages -/
def connackMid (w : World) (k : Nat) (sp : Bool) (inb : List (Nat × Nat)) : World :=
  let c := getConn w k
  let w := setConn w k { c with connected := true }
  let w := { w with broker := if sp then w.broker else w.broker.clearSession }
  inb.foldl (fun w (mq : Nat × Nat) => deliverInbound w k mq.1 mq.2) w

/-- `step (.connackOk …)`, second part: Connect returns, the loop pushes Resubscribe / Retry -/
def connackEnd (w : World) (k : Nat) (sp : Bool) : World :=
  let w := { w with connReady := true, waitExp := 0,
                    connectReturned := if w.connectReturned.isNone then some sp else w.connectReturned }
  let w := if w.initialized ∧ (¬ sp ∨ w.cfg.always) ∧ ¬ w.stopped then pushTask w .resubscribe else w
  let w := if w.stopped then w else pushTask w .retry
  { w with initialized := true, phase := if w.stopped then .exited else .up k }

theorem step_connackOk (w : World) (k : Nat) (sp : Bool) (inb : List (Nat × Nat))
    (h : w.phase = .connackGate k) :
    step w (.connackOk sp inb) = progress (connackEnd (connackMid w k sp inb) k sp) := by
  simp only [step, h]
  rfl

theorem alive_setConnected (w : World) (k : Nat) (j : Nat) :
    (getConn (setConn w k { getConn w k with connected := true }) j).alive = (getConn w j).alive := by
  simp only [getConn_setConn]
  split
  · next h => simp [h.1]
  · rfl

theorem quiet_setConnected (w : World) (k : Nat) :
    Quiet w (setConn w k { getConn w k with connected := true }) := by
  refine ⟨⟨?_, ?_, ?_, ?_, ?_, ?_, ?_, ?_, ?_, ?_, ?_, ?_, ?_, ?alive, ?_, ?_⟩, ?_, ?_, ?_, ?_⟩
  case alive => intro j; rw [alive_setConnected]; exact id
  all_goals simp [setConn]

theorem quiet_handled (w : World) (x : List (Nat × Nat × Nat)) : Quiet w { w with handled := x } := by
  quiet_triv

/-- `Quiet`, and connections stay as alive as they were -/
structure Quiet' (w w' : World) : Prop where
  quiet : Quiet w w'
  alive : ∀ j, (getConn w' j).alive = (getConn w j).alive

theorem Quiet'.trans {a b c : World} (h1 : Quiet' a b) (h2 : Quiet' b c) : Quiet' a c :=
  ⟨h1.quiet.trans h2.quiet, fun j => (h2.alive j).trans (h1.alive j)⟩

theorem quiet'_deliverInbound (w : World) (k m qos : Nat) : Quiet' w (deliverInbound w k m qos) := by
  unfold deliverInbound
  simp only
  repeat' split
  all_goals first
    | exact ⟨Quiet.refl w, fun _ => rfl⟩
    | exact ⟨quiet_handled w _, fun _ => rfl⟩
    | exact ⟨quiet_logPkt .., fun j => alive_logPkt ..⟩
    | exact ⟨(quiet_handled w _).trans (quiet_logPkt ..), fun j => alive_logPkt ..⟩

theorem quiet'_foldl_deliverInbound (inb : List (Nat × Nat)) (k : Nat) (w : World) :
    Quiet' w (inb.foldl (fun w (mq : Nat × Nat) => deliverInbound w k mq.1 mq.2) w) := by
  induction inb generalizing w with
  | nil => exact ⟨Quiet.refl w, fun _ => rfl⟩
  | cons a rest ih =>
    rw [List.foldl_cons]
    exact (quiet'_deliverInbound w k a.1 a.2).trans (ih _)

theorem quiet_clearSession (w : World) (sp : Bool) :
    Quiet w { w with broker := if sp then w.broker else w.broker.clearSession } := by
  refine ⟨⟨?_, ?_, ?_, ?_, ?_, ?_, ?_, ?_, ?_, ?_, ?_, ?_, ?_, ?alive, ?_, ?_⟩, ?_, ?_, ?_, ?_⟩
  case alive => intro j; exact id
  all_goals simp
  cases sp <;> simp [Broker.clearSession]

theorem quiet'_connackMid (w : World) (k : Nat) (sp : Bool) (inb : List (Nat × Nat)) :
    Quiet' w (connackMid w k sp inb) := by
  unfold connackMid
  simp only
  refine Quiet'.trans ⟨(quiet_setConnected w k).trans (quiet_clearSession _ sp), fun j => ?_⟩
    (quiet'_foldl_deliverInbound inb k _)
  exact alive_setConnected w k j


structure ConnackEnd (k : Nat) (w w' : World) : Prop where
  cfg : w'.cfg = w.cfg
  retryQ : w'.retryQ = w.retryQ
  cat : w'.closeAfterTask = w.closeAfterTask
  cli : w'.cli = w.cli
  connReady : w'.connReady = true
  goroutine : w'.goroutine = w.goroutine
  stopped : w'.stopped = w.stopped
  stuck : w'.stuck = w.stuck
  accepted : w'.accepted = w.accepted
  conns : w'.conns = w.conns
  phase : w'.phase = if w.stopped then .exited else .up k
  broker : w'.broker = w.broker
  faults : w'.faults = w.faults
  ctx : w'.ctxCancelled = w.ctxCancelled
  taskQ : w'.taskQ = w.taskQ ∨ w'.taskQ = w.taskQ ++ [.retry] ∨
    w'.taskQ = w.taskQ ++ [.resubscribe, .retry]
  /-- Disconnect has not been called: the connection comes up and `Retry` is pushed -/
  live : w.stopped = false → w'.phase = .up k ∧
    (w'.taskQ = w.taskQ ++ [.retry] ∨ w'.taskQ = w.taskQ ++ [.resubscribe, .retry])

theorem connackEnd_spec (w : World) (k : Nat) (sp : Bool) : ConnackEnd k w (connackEnd w k sp) := by
  unfold connackEnd
  simp only
  cases hst : w.stopped <;> split <;> constructor <;> simp_all [pushTask]

theorem core_connackEnd (w : World) (k : Nat) (sp : Bool) : core (connackEnd w k sp) = core w := by
  have h := connackEnd_spec w k sp
  simp only [core, h.accepted, h.broker, h.retryQ, h.stuck]
  rcases h.taskQ with h | h | h <;> simp [h, List.filterMap_append, taskReq]


/-- `connectFailed` while Disconnect has not been called: the loop backs off (and dials again once the
    back-off timer fires, `.waitElapsed`) -/
theorem connectFailed_live (w : World) (k : Nat) (h : w.stopped = false) :
    connectFailed w k =
      { kill { w with connReady := true } k with
        phase := .backoff, waits := w.waits ++ [w.waitExp], waitExp := w.waitExp + 1 } := by
  unfold connectFailed
  simp only
  rw [if_neg (by show ¬ w.stopped = true; simp [h])]
  rfl

theorem core_connectFailed (w : World) (k : Nat) : core (connectFailed w k) = core w := by
  unfold connectFailed
  simp only
  split <;> rfl

theorem connectFailed_sa (w : World) (k : Nat) :
    (connectFailed w k).stuck = w.stuck ∧ (connectFailed w k).broker.acked = w.broker.acked := by
  unfold connectFailed
  simp only
  split <;> exact ⟨rfl, rfl⟩

theorem core_deliverInbound (w : World) (k m qos : Nat) : core (deliverInbound w k m qos) = core w := by
  unfold deliverInbound
  simp only
  split
  · rfl
  · split <;> split <;> rfl

theorem core_foldl_deliverInbound (inb : List (Nat × Nat)) (k : Nat) (w : World) :
    core (inb.foldl (fun w (mq : Nat × Nat) => deliverInbound w k mq.1 mq.2) w) = core w := by
  induction inb generalizing w with
  | nil => rfl
  | cons a rest ih => rw [List.foldl_cons, ih, core_deliverInbound]

theorem Quiet.core {w w' : World} (q : Quiet w w') : core w' = core w := by
  simp only [Retry.core, q.mono.accepted, q.acked, q.retryQ, q.mono.taskQ, q.stuck]

theorem keepsAll_pushOther (w : World) (t : Task) (ht : taskReq t = none) : KeepsAll w (pushTask w t) := by
  apply KeepsAll.ofCore
  simp [core, pushTask, List.filterMap_append, ht]

theorem keepsAll_step (w : World) (e : Ev) : KeepsAll w (step w e) := by
  cases e with
  | start =>
    simp only [step]
    split
    · exact KeepsAll.refl w
    · split
      · split <;> exact KeepsAll.ofCore rfl
      · exact KeepsAll.ofCore rfl
  | waitElapsed => simp only [step]; split <;> first | exact KeepsAll.refl w | exact KeepsAll.ofCore rfl
  | cancelCtx =>
    simp only [step]
    split
    · exact KeepsAll.refl w
    · split
      · exact KeepsAll.ofCore rfl
      · exact KeepsAll.ofCore rfl
      · split <;> exact KeepsAll.ofCore rfl
      · exact KeepsAll.trans (KeepsAll.ofCore rfl) (keepsAll_progress _)
      · exact KeepsAll.ofCore rfl
      · exact KeepsAll.ofCore rfl
  | app r =>
    simp only [step]
    split
    · exact KeepsAll.ofCore rfl
    · refine KeepsAll.trans ?_ (keepsAll_progress _)
      intro r0 _ hs
      refine ⟨hs, ?_⟩
      simp only [total, held, queued, pushTask, List.filterMap_append, List.count_append]
      simp [taskReq, List.count_cons]
      omega
  | dialOk i =>
    simp only [step]
    split
    · exact KeepsAll.refl w
    · split
      -- (deaf dialer) the transport arrives after the cancellation: a dead connection, then the task goroutine runs
      · exact KeepsAll.trans (KeepsAll.ofCore rfl) (keepsAll_progress _)
      · exact KeepsAll.ofCore rfl
  | dialFail =>
    simp only [step]
    split
    · exact KeepsAll.refl w
    · split
      · exact KeepsAll.ofCore rfl
      · split <;> exact KeepsAll.ofCore rfl
  | connackOk sp inb =>
    simp only [step]
    split
    · next k _ =>
      refine KeepsAll.trans (KeepsAll.ofCore ?_) (keepsAll_progress _)
      exact (core_connackEnd (connackMid w k sp inb) k sp).trans (quiet'_connackMid w k sp inb).quiet.core
    · exact KeepsAll.refl w
  | connackRefused =>
    simp only [step]
    split
    · exact KeepsAll.trans (KeepsAll.ofCore (core_connectFailed ..)) (keepsAll_progress _)
    · exact KeepsAll.refl w
  | connackNever =>
    simp only [step]
    split
    · split
      · exact KeepsAll.trans (KeepsAll.ofCore (core_connectFailed ..)) (keepsAll_progress _)
      · exact KeepsAll.refl w
    · exact KeepsAll.refl w
  | peerClose =>
    simp only [step]
    split
    · exact KeepsAll.trans (KeepsAll.ofCore rfl) (keepsAll_progress _)
    · exact KeepsAll.refl w
  | inbound m qos =>
    simp only [step]
    split
    · exact KeepsAll.ofCore (core_deliverInbound ..)
    · exact KeepsAll.refl w
  | handle h =>
    simp only [step]
    split <;> exact KeepsAll.ofCore rfl
  | disconnect =>
    simp only [step]
    split
    · exact KeepsAll.refl w
    · have h1 : KeepsAll w { pushTask w .disconnect with stopped := true } :=
        (keepsAll_pushOther w .disconnect rfl).trans (KeepsAll.ofCore rfl)
      have h2 := h1.trans (keepsAll_progress _)
      split
      · exact h2.trans (KeepsAll.ofCore rfl)
      · exact h2.trans (KeepsAll.ofCore rfl)
      · exact h2


theorem keepsAll_foldl (evs : List Ev) (w : World) : KeepsAll w (evs.foldl step w) := by
  induction evs generalizing w with
  | nil => exact KeepsAll.refl w
  | cons e rest ih => exact (keepsAll_step w e).trans (ih _)

theorem total_eq (w : World) (r0 : Req) :
    total w r0 = w.broker.acked.count r0 + (pendingReqs w).count r0 := by
  have : pendingReqs w = w.retryQ.map entryReq ++ w.taskQ.filterMap taskReq := by
    unfold pendingReqs; congr 2
  simp only [total, held, queued, this, List.count_append]
  omega

/-! ### liveness: the task goroutine -/

/-- the task goroutine may run, on connection `k` -/
structure Run (k : Nat) (w : World) : Prop where
  cli : w.cli = some k
  lt : k < w.conns.length
  gor : w.goroutine = true
  ready : w.connReady = true
  stuck : w.stuck = false
  cat : w.closeAfterTask = false
  sil : Sil w
  nodisc : Task.disconnect ∉ w.taskQ
  stopped : w.stopped = false
  ctx : w.ctxCancelled = false

/-- what a run of the task goroutine achieves -/
structure Ran (k : Nat) (w w' : World) : Prop where
  run : Run k w'
  taskQ : w'.taskQ = []
  phase : w'.phase = w.phase
  flen : w'.faults.length ≤ w.faults.length
  alive : (getConn w' k).alive = true → (getConn w k).alive = true
  dead : (getConn w k).alive = true → (getConn w' k).alive = false → w'.faults.length < w.faults.length
  retryQ : (getConn w' k).alive = true → (w.retryQ = [] ∨ Task.retry ∈ w.taskQ) → w'.retryQ = []

theorem afterTask_spec (w : World) (k : Nat) (hk : k < w.conns.length) :
    (afterTask w k).closeAfterTask = false ∧ (afterTask w k).cli = w.cli ∧
    (afterTask w k).conns.length = w.conns.length ∧ (afterTask w k).goroutine = w.goroutine ∧
    (afterTask w k).connReady = w.connReady ∧ (afterTask w k).stuck = w.stuck ∧
    (afterTask w k).cfg = w.cfg ∧ (afterTask w k).faults = w.faults ∧
    (afterTask w k).taskQ = w.taskQ ∧ (afterTask w k).stopped = w.stopped ∧
    (afterTask w k).phase = w.phase ∧ (afterTask w k).ctxCancelled = w.ctxCancelled ∧
    (w.closeAfterTask = false → afterTask w k = w) ∧
    ((getConn (afterTask w k) k).alive = true → w.closeAfterTask = false) := by
  unfold afterTask
  split
  · next h =>
    refine ⟨rfl, rfl, ?_, rfl, rfl, rfl, rfl, rfl, rfl, rfl, rfl, rfl, ?_, ?_⟩
    · simp [kill, setConn]
    · intro h'; rw [h] at h'; exact absurd h' (by decide)
    · intro ha
      have : (getConn (kill w k) k).alive = true := ha
      rw [alive_kill] at this
      simp [hk] at this
  · next h =>
    have h' : w.closeAfterTask = false := by simpa using h
    exact ⟨h', rfl, rfl, rfl, rfl, rfl, rfl, rfl, rfl, rfl, rfl, rfl, fun _ => rfl, fun _ => h'⟩

theorem runTasks_live (k : Nat) (fuel : Nat) (w : World) (hr : Run k w) (hf : w.taskQ.length < fuel) :
    Ran k w (runTasks fuel w) := by
  induction fuel generalizing w with
  | zero => exact absurd hf (Nat.not_lt_zero _)
  | succ fuel ih =>
    rw [runTasks_succ]
    have c1 : ¬ (¬ w.goroutine = true ∨ w.stuck = true) := by simp [hr.gor, hr.stuck]
    have c2 : ¬ (¬ w.gConnected = true ∧ ¬ w.connReady = true) := by simp [hr.ready]
    rw [if_neg c1, if_neg c2]
    split
    · next hq =>
      refine ⟨⟨hr.cli, hr.lt, hr.gor, hr.ready, hr.stuck, hr.cat, hr.sil, hr.nodisc, hr.stopped, hr.ctx⟩,
        hq, rfl, Nat.le_refl _, id, fun h h' => ?_, fun _ h => ?_⟩
      · have : (getConn w k).alive = false := h'
        rw [h] at this; exact absurd this (by decide)
      · simpa [hq] using h
    · next hc _ => rw [hr.cli] at hc; exact absurd hc (by simp)
    · next t rest k' hq hc =>
      have hk : k' = k := by rw [hr.cli] at hc; exact (Option.some.inj hc).symm
      subst hk
      have ht : t ≠ .disconnect := by
        intro e; apply hr.nodisc; rw [hq, e]; exact List.mem_cons_self
      have st := runTask_step (popTask w rest) k' t ht
      generalize hw1 : runTask (popTask w rest) k' t = w1 at st ⊢
      have sil0 : Sil (popTask w rest) := hr.sil
      have stuck1 : w1.stuck = false := (st.nostuck sil0).trans hr.stuck
      rw [if_neg (by simp [stuck1])]
      have m := st.mono
      have hk1 : k' < w1.conns.length := by rw [m.len]; exact hr.lt
      obtain ⟨a1, a2, a3, a4, a5, a6, a7, a8, a9, a10, a11, actx, a12, a13⟩ := afterTask_spec w1 k' hk1
      have run2 : Run k' (afterTask w1 k') := by
        refine ⟨a2.trans (m.cli.trans hr.cli), by rw [a3]; exact hk1, a4.trans (m.goroutine.trans hr.gor),
          a5.trans (m.connReady.trans hr.ready), a6.trans stuck1, a1, ?_, ?_, a10.trans (m.stopped.trans hr.stopped),
          actx.trans (m.ctx.trans hr.ctx)⟩
        · have := m.sil sil0
          unfold Sil at *; rw [a7, a8]; exact this
        · rw [a9, m.taskQ]
          intro hd; apply hr.nodisc; rw [hq]; exact List.mem_cons_of_mem _ hd
      have len2 : (afterTask w1 k').taskQ.length < fuel := by
        rw [a9, m.taskQ]; simp only [popTask]
        rw [hq] at hf; simp at hf; omega
      have r := ih (afterTask w1 k') run2 len2
      have fl1 : w1.faults.length ≤ w.faults.length := m.flen
      have fl2 : (afterTask w1 k').faults.length = w1.faults.length := by rw [a8]
      refine ⟨r.run, r.taskQ, r.phase.trans (a11.trans m.phase), by have := r.flen; omega, ?_, ?_, ?_⟩
      · intro h
        have h2 := r.alive h
        have := a12 (a13 h2)
        rw [this] at h2
        exact m.alive k' h2
      · intro h h'
        have g0 : Good k' (popTask w rest) := ⟨h, hr.cat⟩
        cases st.good g0 with
        | inl g1 =>
          have e := a12 g1.2
          have := r.dead (by rw [e]; exact g1.1) h'
          have := r.flen
          rw [e] at *
          have : w1.faults.length ≤ w.faults.length := fl1
          omega
        | inr l =>
          have := r.flen
          have : w1.faults.length < w.faults.length := l
          omega
      · intro h hyp
        have h2 := r.alive h
        have c1 := a13 h2
        have e := a12 c1
        apply r.retryQ h
        rw [e, m.taskQ]
        by_cases htr : t = .retry
        · left
          subst htr
          have cl := (runTask_retry (popTask w rest) k').2.2
          rw [hw1] at cl
          cases cl with
          | inl h => exact h
          | inr h => rw [c1] at h; exact absurd h (by decide)
        · cases hyp with
          | inl hq0 =>
            left
            have cl := st.clean (Or.inl hq0)
            cases cl with
            | inl h => exact h
            | inr h => rw [c1] at h; exact absurd h (by decide)
          | inr hmem =>
            right
            rw [hq] at hmem
            cases hmem with
            | head => exact absurd rfl htr
            | tail _ h => exact h


/-! ### liveness: the invariant of quiescent states -/

/-- the loop is between two connections: waiting for the back-off timer (`.backoff`) or inside
    DialContext (`.dialGate`) -/
def Phase.dialling : Phase → Bool
  | .backoff => true
  | .dialGate => true
  | _ => false

/-- the loop backs off / dials after connection `k` (the client's current one) has died -/
def DeadOn (w : World) (k : Nat) : Prop :=
  w.cli = some k ∧ k < w.conns.length ∧ (getConn w k).alive = false ∧ w.goroutine = true ∧
    w.connReady = true

structure Inv (w : World) : Prop where
  stopped : w.stopped = false
  stuck : w.stuck = false
  cat : w.closeAfterTask = false
  sil : Sil w
  nodisc : Task.disconnect ∉ w.taskQ
  /-- the context given to Connect has not been cancelled while Connect was still waiting -/
  ctx : w.ctxCancelled = false
  idle : w.phase = .idle → w.goroutine = false ∧ w.gConnected = false
  dial : w.phase.dialling = true → (w.goroutine = false ∧ w.gConnected = false) ∨ ∃ k, DeadOn w k
  gate : ∀ k, w.phase = .connackGate k → w.cli = some k ∧ k < w.conns.length ∧
    (getConn w k).alive = true ∧ w.goroutine = true ∧ w.gConnected = false ∧ w.connReady = false
  up : ∀ k, w.phase = .up k → w.cli = some k ∧ k < w.conns.length ∧
    (getConn w k).alive = true ∧ w.goroutine = true ∧ w.connReady = true ∧ w.taskQ = [] ∧ w.retryQ = []
  nex : w.phase ≠ .exited

theorem Inv.ofQuiet' {w w' : World} (q : Quiet' w w') (h : Inv w) : Inv w' := by
  have m := q.quiet.mono
  refine ⟨m.stopped.trans h.stopped, q.quiet.stuck.trans h.stuck, q.quiet.cat.trans h.cat, m.sil h.sil,
    by rw [m.taskQ]; exact h.nodisc, m.ctx.trans h.ctx, ?_, ?_, ?_, ?_, by rw [m.phase]; exact h.nex⟩
  · intro hp; rw [m.phase] at hp; rw [m.goroutine, m.gConnected]; exact h.idle hp
  · intro hp; rw [m.phase] at hp
    cases h.dial hp with
    | inl h => left; rw [m.goroutine, m.gConnected]; exact h
    | inr h =>
      obtain ⟨k, h⟩ := h
      right; refine ⟨k, ?_⟩
      unfold DeadOn at *
      rw [m.cli, m.len, q.alive, m.goroutine, m.connReady]; exact h
  · intro k hp; rw [m.phase] at hp
    rw [m.cli, m.len, q.alive, m.goroutine, m.connReady, m.gConnected]; exact h.gate k hp
  · intro k hp; rw [m.phase] at hp
    rw [m.cli, m.len, q.alive, m.goroutine, m.connReady, m.taskQ, q.quiet.retryQ]; exact h.up k hp

/-- the task goroutine cannot run -/
theorem runTasks_blocked (fuel : Nat) (w : World)
    (h : w.goroutine = false ∨ (w.gConnected = false ∧ w.connReady = false)) :
    runTasks fuel w = w := by
  cases fuel with
  | zero => rfl
  | succ fuel =>
    rw [runTasks_succ]
    cases h with
    | inl h => simp [h]
    | inr h => simp [h.1, h.2]

theorem progress_blocked (w : World)
    (h : w.goroutine = false ∨ (w.gConnected = false ∧ w.connReady = false))
    (hp : ∀ k, w.phase ≠ .up k) : progress w = w := by
  unfold progress
  rw [runTasks_blocked _ w h]
  unfold loopReact
  split
  · next k hk => exact absurd hk (hp k)
  · rfl

/-- progress while the loop backs off or dials: everything runs into the retry queue -/
theorem progress_dial (k : Nat) (w : World) (hr : Run k w) (hp : w.phase.dialling = true)
    (hd : (getConn w k).alive = false) :
    Inv (progress w) ∧ (progress w).phase = w.phase ∧ (progress w).faults.length ≤ w.faults.length := by
  unfold progress
  have r := runTasks_live k _ w hr (Nat.lt_succ_self _)
  generalize runTasks (w.taskQ.length + 1) w = w' at r
  have hp' : w'.phase = w.phase := r.phase
  have hd' : w'.phase.dialling = true := by rw [hp']; exact hp
  have e : loopReact w' = w' := by
    unfold loopReact
    split
    · next k' hk => rw [hk] at hd'; exact absurd hd' (by simp [Phase.dialling])
    · rfl
  rw [e]
  have dead : (getConn w' k).alive = false := by
    cases h : (getConn w' k).alive with
    | false => rfl
    | true => rw [r.alive h] at hd; exact absurd hd (by decide)
  refine ⟨⟨r.run.stopped, r.run.stuck, r.run.cat, r.run.sil, r.run.nodisc, r.run.ctx, ?_, ?_, ?_, ?_, ?_⟩,
    hp', r.flen⟩
  · intro h; rw [h] at hd'; exact absurd hd' (by simp [Phase.dialling])
  · intro _; right; exact ⟨k, r.run.cli, r.run.lt, dead, r.run.gor, r.run.ready⟩
  · intro k h; rw [h] at hd'; exact absurd hd' (by simp [Phase.dialling])
  · intro k h; rw [h] at hd'; exact absurd hd' (by simp [Phase.dialling])
  · intro h; rw [h] at hd'; exact absurd hd' (by simp [Phase.dialling])

/-- a quiescent state with the connection up: nothing is left to do -/
def settled (w : World) : Prop :=
  w.taskQ = [] ∧ w.retryQ = [] ∧ w.stuck = false ∧ ∃ k, w.phase = .up k ∧ (getConn w k).alive = true

/-- progress while connection `k` is up: either everything is carried out, or the connection
    breaks, the loop backs off, and (if the connection was alive) a fault has been consumed -/
theorem progress_up (k : Nat) (w : World) (hr : Run k w) (hp : w.phase = .up k)
    (hq : w.retryQ = [] ∨ Task.retry ∈ w.taskQ) :
    Inv (progress w) ∧ (progress w).faults.length ≤ w.faults.length ∧
      (settled (progress w) ∨ ((progress w).phase = .backoff ∧
        ((getConn w k).alive = true → (progress w).faults.length < w.faults.length))) := by
  unfold progress
  have r := runTasks_live k _ w hr (Nat.lt_succ_self _)
  generalize runTasks (w.taskQ.length + 1) w = w' at r
  have hp' : w'.phase = .up k := r.phase.trans hp
  unfold loopReact
  rw [hp']
  simp only
  split
  · next ha =>
    have rq := r.retryQ ha hq
    refine ⟨⟨r.run.stopped, r.run.stuck, r.run.cat, r.run.sil, r.run.nodisc, r.run.ctx, ?_, ?_, ?_, ?_, ?_⟩,
      r.flen, Or.inl ⟨r.taskQ, rq, r.run.stuck, k, hp', ha⟩⟩
    · intro h; rw [hp'] at h; exact absurd h (by simp)
    · intro h; rw [hp'] at h; exact absurd h (by simp [Phase.dialling])
    · intro k h; rw [hp'] at h; exact absurd h (by simp)
    · intro k2 h; rw [hp'] at h
      have : k = k2 := by simpa using h
      subst this
      exact ⟨r.run.cli, r.run.lt, ha, r.run.gor, r.run.ready, r.taskQ, rq⟩
    · rw [hp']; simp
  · next ha =>
    have dead : (getConn w' k).alive = false := by simpa using ha
    rw [if_neg (by simp [r.run.stopped])]
    refine ⟨⟨r.run.stopped, r.run.stuck, r.run.cat, r.run.sil, r.run.nodisc, r.run.ctx, ?_, ?_, ?_, ?_, ?_⟩,
      r.flen, Or.inr ⟨rfl, fun h => r.dead h dead⟩⟩
    · intro h; exact absurd h (by simp)
    · intro _; right; exact ⟨k, r.run.cli, r.run.lt, dead, r.run.gor, r.run.ready⟩
    · intro k h; exact absurd h (by simp)
    · intro k h; exact absurd h (by simp)
    · simp


/-! ### liveness: the events -/

theorem inv_start (w : World) (h : Inv w) : Inv (step w .start) := by
  simp only [step]
  split
  · exact h
  · next hp =>
    have hp : w.phase = .idle := by simpa using hp
    have := h.idle hp
    rw [if_neg (by simp [h.ctx])]
    refine ⟨h.stopped, h.stuck, h.cat, h.sil, h.nodisc, h.ctx, ?_, fun _ => Or.inl this, ?_, ?_, ?_⟩
    · intro h; exact absurd h (by simp)
    · intro k h; exact absurd h (by simp)
    · intro k h; exact absurd h (by simp)
    · simp

theorem run_of_up {w : World} {k : Nat} (h : Inv w) (hp : w.phase = .up k) : Run k w :=
  have u := h.up k hp
  ⟨u.1, u.2.1, u.2.2.2.1, u.2.2.2.2.1, h.stuck, h.cat, h.sil, h.nodisc, h.stopped, h.ctx⟩

theorem run_of_dead {w : World} {k : Nat} (h : Inv w) (hd : DeadOn w k) : Run k w :=
  ⟨hd.1, hd.2.1, hd.2.2.2.1, hd.2.2.2.2, h.stuck, h.cat, h.sil, h.nodisc, h.stopped, h.ctx⟩

/-- `Run` survives the changes an event makes before `progress` -/
theorem Run.push {w : World} {k : Nat} (h : Run k w) (acc : List Req) (t : Task) (ht : t ≠ .disconnect) :
    Run k (pushTask { w with accepted := acc } t) := by
  refine ⟨h.cli, h.lt, h.gor, h.ready, h.stuck, h.cat, h.sil, ?_, h.stopped, h.ctx⟩
  simp only [pushTask, List.mem_append, List.mem_singleton]
  intro hd
  cases hd with
  | inl hd => exact h.nodisc hd
  | inr hd => exact ht hd.symm

theorem inv_app (w : World) (r : Req) (h : Inv w) : Inv (step w (.app r)) := by
  simp only [step]
  rw [if_neg (by simp [h.stopped])]
  generalize hw0 : pushTask { w with accepted := w.accepted ++ [r] } (.req r) = w0
  have hph : w0.phase = w.phase := by rw [← hw0]; rfl
  have nd0 : Task.disconnect ∉ w0.taskQ := by
    rw [← hw0]; simp only [pushTask, List.mem_append, List.mem_singleton]
    intro hd
    cases hd with
    | inl hd => exact h.nodisc hd
    | inr hd => exact absurd hd (by simp)
  -- the state in which nothing runs
  have blocked : (w.goroutine = false ∨ (w.gConnected = false ∧ w.connReady = false)) →
      (∀ k, w.phase ≠ .up k) → Inv (progress w0) := by
    intro hb hn
    rw [progress_blocked w0 (by rw [← hw0]; exact hb) (by rw [hph]; exact hn)]
    rw [← hw0]
    rw [← hw0] at nd0
    exact ⟨h.stopped, h.stuck, h.cat, h.sil, nd0, h.ctx, h.idle, h.dial, h.gate,
      fun k hp => absurd hp (hn k), h.nex⟩
  -- the loop backs off or dials
  have dialling : w.phase.dialling = true → Inv (progress w0) := by
    intro hp
    cases h.dial hp with
    | inl hg => exact blocked (Or.inl hg.1) (fun k hk => by rw [hk] at hp; simp [Phase.dialling] at hp)
    | inr hd =>
      obtain ⟨k, hd⟩ := hd
      have hr : Run k w0 := hw0 ▸ (run_of_dead h hd).push _ _ (by simp)
      exact (progress_dial k w0 hr (by rw [hph]; exact hp) (by rw [← hw0]; exact hd.2.2.1)).1
  cases hp : w.phase with
  | idle => exact blocked (Or.inl (h.idle hp).1) (by simp [hp])
  | backoff => exact dialling (by rw [hp]; rfl)
  | dialGate => exact dialling (by rw [hp]; rfl)
  | connackGate k =>
    have g := h.gate k hp
    exact blocked (Or.inr ⟨g.2.2.2.2.1, g.2.2.2.2.2⟩) (by simp [hp])
  | up k =>
    have hr : Run k w0 := hw0 ▸ (run_of_up h hp).push _ _ (by simp)
    have u := h.up k hp
    exact (progress_up k w0 hr (hph.trans hp) (Or.inl (by rw [← hw0]; exact u.2.2.2.2.2.2))).1
  | exited => exact absurd hp h.nex


theorem getD_append_self (l : List Conn) (c d : Conn) : (l ++ [c]).getD l.length d = c := by
  simp [List.getD_eq_getElem?_getD]

theorem inv_dialOk (w : World) (i : Nat) (h : Inv w) :
    Inv (step w (.dialOk i)) ∧ (step w (.dialOk i)).faults = w.faults ∧
      (w.phase = .dialGate → ∃ k, (step w (.dialOk i)).phase = .connackGate k) ∧
      (w.phase ≠ .dialGate → step w (.dialOk i) = w) := by
  simp only [step]
  split
  · next hp => exact ⟨h, rfl, fun h => absurd h hp, fun _ => rfl⟩
  · next hp =>
    have hp : w.phase = .dialGate := by simpa using hp
    -- the context has not been cancelled: the branch of the deaf dialer is not taken
    rw [if_neg (by simp [h.ctx])]
    refine ⟨⟨h.stopped, h.stuck, h.cat, h.sil, h.nodisc, h.ctx, ?_, ?_, ?_, ?_, ?_⟩, rfl,
      fun _ => ⟨_, rfl⟩, fun h => absurd hp h⟩
    · intro h; exact absurd h (by simp)
    · intro h; exact absurd h (by simp [Phase.dialling])
    · intro k hk
      have hk : w.conns.length = k := by simpa using hk
      subst hk
      refine ⟨rfl, by simp, ?_, rfl, ?_, rfl⟩
      · simp only [getConn]; rw [getD_append_self]
      · cases h.dial (by rw [hp]; rfl) with
        | inl hg => simp [hg.1, hg.2]
        | inr hd =>
          obtain ⟨k, hd⟩ := hd
          cases hgc : w.gConnected <;> simp [hd.2.2.2.1, h.stuck]
    · intro k h; exact absurd h (by simp)
    · simp

/-- a failed dial: the loop backs off -/
theorem inv_dialFail (w : World) (h : Inv w) : Inv (step w .dialFail) := by
  simp only [step]
  split
  · exact h
  · next hp =>
    have hp : w.phase = .dialGate := by simpa using hp
    rw [if_neg (by simp [h.stopped]), if_neg (by simp [h.ctx])]
    refine ⟨h.stopped, h.stuck, h.cat, h.sil, h.nodisc, h.ctx, ?_, fun _ => h.dial (by rw [hp]; rfl),
      ?_, ?_, ?_⟩
    · intro h; exact absurd h (by simp)
    · intro k h; exact absurd h (by simp)
    · intro k h; exact absurd h (by simp)
    · simp

/-- the back-off timer fires: the loop dials -/
theorem inv_waitElapsed (w : World) (h : Inv w) :
    Inv (step w .waitElapsed) ∧ (step w .waitElapsed).faults = w.faults ∧
      (w.phase = .backoff → (step w .waitElapsed).phase = .dialGate) ∧
      (w.phase ≠ .backoff → step w .waitElapsed = w) := by
  simp only [step]
  split
  · next hp =>
    refine ⟨⟨h.stopped, h.stuck, h.cat, h.sil, h.nodisc, h.ctx, ?_, fun _ => h.dial (by rw [hp]; rfl),
      ?_, ?_, ?_⟩, rfl, fun _ => rfl, fun hn => absurd hp hn⟩
    · intro h; exact absurd h (by simp)
    · intro k h; exact absurd h (by simp)
    · intro k h; exact absurd h (by simp)
    · simp
  · next hp => exact ⟨h, rfl, fun h => absurd h hp, fun _ => rfl⟩

theorem inv_inbound (w : World) (m qos : Nat) (h : Inv w) : Inv (step w (.inbound m qos)) := by
  simp only [step]
  split
  · exact Inv.ofQuiet' (quiet'_deliverInbound ..) h
  · exact h

theorem alive_setHandler (w : World) (k : Nat) (x : Option Nat) (j : Nat) :
    (getConn (setConn w k { getConn w k with handler := x }) j).alive = (getConn w j).alive := by
  simp only [getConn_setConn]
  split
  · next h => simp [h.1]
  · rfl

theorem quiet'_setHandler (w : World) (k : Nat) (x : Option Nat) :
    Quiet' w (setConn w k { getConn w k with handler := x }) := by
  refine ⟨⟨⟨?_, ?_, ?_, ?_, ?_, ?_, ?_, ?_, ?_, ?_, ?_, ?_, ?_, ?alive, ?_, ?_⟩, ?_, ?_, ?_, ?_⟩, alive_setHandler w k x⟩
  case alive => intro j; rw [alive_setHandler]; exact id
  all_goals simp [setConn]

theorem quiet'_handler (w : World) (x : Option Nat) : Quiet' w { w with handler := x } :=
  ⟨by quiet_triv, fun _ => rfl⟩

theorem inv_handle (w : World) (x : Nat) (h : Inv w) : Inv (step w (.handle x)) := by
  simp only [step]
  split
  · exact Inv.ofQuiet' ((quiet'_handler w (some x)).trans (quiet'_setHandler _ _ _)) h
  · exact Inv.ofQuiet' (quiet'_handler w (some x)) h


theorem inv_connackOk (w : World) (sp : Bool) (inb : List (Nat × Nat)) (h : Inv w) :
    Inv (step w (.connackOk sp inb)) ∧
      (step w (.connackOk sp inb)).faults.length ≤ w.faults.length ∧
      ((∃ k, w.phase = .connackGate k) → settled (step w (.connackOk sp inb)) ∨
        ((step w (.connackOk sp inb)).phase = .backoff ∧
          (step w (.connackOk sp inb)).faults.length < w.faults.length)) ∧
      ((∀ k, w.phase ≠ .connackGate k) → step w (.connackOk sp inb) = w) := by
  cases hp : w.phase with
  | connackGate k =>
    rw [step_connackOk w k sp inb hp]
    have g := h.gate k hp
    have q := quiet'_connackMid w k sp inb
    have m := q.quiet.mono
    generalize connackMid w k sp inb = mid at q m
    have e := connackEnd_spec mid k sp
    generalize connackEnd mid k sp = w0 at e
    have al : (getConn w0 k).alive = true := by
      simp only [getConn]; rw [e.conns]; exact (q.alive k).trans g.2.2.1
    have hr : Run k w0 := by
      refine ⟨e.cli.trans (m.cli.trans g.1), by rw [e.conns, m.len]; exact g.2.1,
        e.goroutine.trans (m.goroutine.trans g.2.2.2.1), e.connReady,
        e.stuck.trans (q.quiet.stuck.trans h.stuck), e.cat.trans (q.quiet.cat.trans h.cat), ?_, ?_,
        e.stopped.trans (m.stopped.trans h.stopped), e.ctx.trans (m.ctx.trans h.ctx)⟩
      · have := m.sil h.sil
        unfold Sil at *; rw [e.faults, e.cfg]; exact this
      · have nd : Task.disconnect ∉ mid.taskQ := by rw [m.taskQ]; exact h.nodisc
        rcases e.taskQ with ht | ht | ht <;> rw [ht] <;> simp [nd]
    have hq : w0.retryQ = [] ∨ Task.retry ∈ w0.taskQ := by
      right
      cases (e.live (m.stopped.trans h.stopped)).2 with
      | inl ht => rw [ht]; simp
      | inr ht => rw [ht]; simp
    have ⟨i1, i2, i3⟩ := progress_up k w0 hr (e.live (m.stopped.trans h.stopped)).1 hq
    have fl : w0.faults.length ≤ w.faults.length := by rw [e.faults]; exact m.flen
    refine ⟨i1, Nat.le_trans i2 fl, fun _ => ?_, fun hn => absurd rfl (hn k)⟩
    cases i3 with
    | inl s => exact Or.inl s
    | inr l => exact Or.inr ⟨l.1, Nat.lt_of_lt_of_le (l.2 al) fl⟩
  | idle => simp only [step, hp]; exact ⟨h, Nat.le_refl _, fun ⟨k, hk⟩ => absurd hk (by simp), by simp⟩
  | backoff => simp only [step, hp]; exact ⟨h, Nat.le_refl _, fun ⟨k, hk⟩ => absurd hk (by simp), by simp⟩
  | dialGate => simp only [step, hp]; exact ⟨h, Nat.le_refl _, fun ⟨k, hk⟩ => absurd hk (by simp), by simp⟩
  | up k => simp only [step, hp]; exact ⟨h, Nat.le_refl _, fun ⟨k, hk⟩ => absurd hk (by simp), by simp⟩
  | exited => exact absurd hp h.nex

theorem inv_connectFailed (w : World) (k : Nat) (h : Inv w) (hp : w.phase = .connackGate k) :
    Inv (progress (connectFailed w k)) := by
  have g := h.gate k hp
  rw [connectFailed_live w k h.stopped]
  have hr : Run k { kill { w with connReady := true } k with
      phase := .backoff, waits := w.waits ++ [w.waitExp], waitExp := w.waitExp + 1 } := by
    refine ⟨g.1, ?_, g.2.2.2.1, rfl, h.stuck, h.cat, h.sil, h.nodisc, h.stopped, h.ctx⟩
    simp only [kill, setConn, List.length_set]; exact g.2.1
  have hd : (getConn { kill { w with connReady := true } k with
      phase := .backoff, waits := w.waits ++ [w.waitExp], waitExp := w.waitExp + 1 } k).alive = false := by
    show (getConn (kill { w with connReady := true } k) k).alive = false
    rw [alive_kill]; rw [if_pos ⟨rfl, g.2.1⟩]
  exact (progress_dial k _ hr rfl hd).1

theorem inv_connackRefused (w : World) (h : Inv w) : Inv (step w .connackRefused) := by
  simp only [step]
  split
  · next k hp => exact inv_connectFailed w k h hp
  · exact h

theorem inv_connackNever (w : World) (h : Inv w) : Inv (step w .connackNever) := by
  simp only [step]
  split
  · next k hp =>
    split
    · exact inv_connectFailed w k h hp
    · exact h
  · exact h

theorem inv_peerClose (w : World) (h : Inv w) : Inv (step w .peerClose) := by
  simp only [step]
  split
  · next k hp =>
    have u := h.up k hp
    have hr : Run k (kill w k) := by
      refine ⟨u.1, ?_, u.2.2.2.1, u.2.2.2.2.1, h.stuck, h.cat, h.sil, h.nodisc, h.stopped, h.ctx⟩
      simp only [kill, setConn, List.length_set]; exact u.2.1
    exact (progress_up k _ hr hp (Or.inl u.2.2.2.2.2.2)).1
  · exact h

def isDisconnect : Ev → Bool
  | .disconnect => true
  | _ => false

def isCancel : Ev → Bool
  | .cancelCtx => true
  | _ => false

/-! #### the context given to Connect -/

theorem ctx_runTasks (fuel : Nat) (w : World) : (runTasks fuel w).ctxCancelled = w.ctxCancelled := by
  induction fuel generalizing w with
  | zero => rfl
  | succ fuel ih =>
    rw [runTasks_succ]
    split
    · rfl
    · split
      · rfl
      · split
        · rfl
        · rfl
        · next t rest k _ _ =>
          have m := runTask_mono (popTask w rest) k t
          split
          · exact m.ctx
          · rw [ih]
            have : (afterTask (runTask (popTask w rest) k t) k).ctxCancelled
                = (runTask (popTask w rest) k t).ctxCancelled := by
              unfold afterTask; split <;> rfl
            exact this.trans m.ctx

theorem ctx_loopReact (w : World) : (loopReact w).ctxCancelled = w.ctxCancelled := by
  unfold loopReact
  split
  · split
    · rfl
    · split <;> rfl
  · rfl

theorem ctx_progress (w : World) : (progress w).ctxCancelled = w.ctxCancelled :=
  (ctx_loopReact _).trans (ctx_runTasks _ w)

theorem ctx_connectFailed (w : World) (k : Nat) : (connectFailed w k).ctxCancelled = w.ctxCancelled := by
  unfold connectFailed
  simp only
  split <;> rfl

/-- only `.cancelCtx` touches `ctxCancelled` -/
theorem ctx_step (w : World) (e : Ev) (he : isCancel e = false) :
    (step w e).ctxCancelled = w.ctxCancelled := by
  cases e with
  | start => simp only [step]; split <;> first | rfl | (split <;> first | rfl | (split <;> rfl))
  | app r => simp only [step]; split <;> first | rfl | exact ctx_progress _
  | dialOk i => simp only [step]; split <;> first | rfl | (split <;> first | rfl | exact ctx_progress _)
  | dialFail => simp only [step]; split <;> first | rfl | (split <;> first | rfl | (split <;> rfl))
  | waitElapsed => simp only [step]; split <;> rfl
  | cancelCtx => exact absurd he (by decide)
  | connackOk sp inb =>
    cases hp : w.phase with
    | connackGate k =>
      rw [step_connackOk w k sp inb hp, ctx_progress]
      exact (connackEnd_spec _ k sp).ctx.trans (quiet'_connackMid w k sp inb).quiet.mono.ctx
    | idle => simp only [step, hp]
    | backoff => simp only [step, hp]
    | dialGate => simp only [step, hp]
    | up k => simp only [step, hp]
    | exited => simp only [step, hp]
  | connackRefused =>
    simp only [step]
    split
    · exact (ctx_progress _).trans (ctx_connectFailed ..)
    · rfl
  | connackNever =>
    simp only [step]
    split
    · split
      · exact (ctx_progress _).trans (ctx_connectFailed ..)
      · rfl
    · rfl
  | peerClose =>
    simp only [step]
    split
    · exact (ctx_progress _).trans (quiet_kill ..).mono.ctx
    · rfl
  | inbound m qos =>
    simp only [step]
    split
    · exact (quiet'_deliverInbound ..).quiet.mono.ctx
    · rfl
  | handle x =>
    simp only [step]
    split <;> rfl
  | disconnect =>
    simp only [step]
    split
    · rfl
    · have := ctx_progress { pushTask w .disconnect with stopped := true }
      split <;> exact this

/-- an effective cancellation (the context is done while Connect is still waiting) is recorded -/
theorem ctx_cancel_effective (w : World) (h : w.connectReturned.isSome = false) :
    (step w .cancelCtx).ctxCancelled = true := by
  cases hc : w.ctxCancelled with
  | true => simp only [step, hc]; simpa using hc
  | false =>
    simp only [step, hc, h]
    simp only [Bool.false_eq_true, or_self, ↓reduceIte]
    split <;> first | rfl | exact (ctx_progress _).trans rfl | (split <;> rfl)

/-- a cancellation after Connect has returned has no effect (reconnclient.go:97-101) -/
theorem cancel_ineffective (w : World) (h : w.connectReturned.isSome = true) : step w .cancelCtx = w := by
  simp only [step, h, or_true, ↓reduceIte]

/-- the cancellation of the context is never undone -/
theorem ctx_step_mono (w : World) (e : Ev) (h : w.ctxCancelled = true) : (step w e).ctxCancelled = true := by
  cases he : isCancel e with
  | false => exact (ctx_step w e he).trans h
  | true =>
    cases e with
    | cancelCtx => simp only [step, h, true_or, ↓reduceIte]
    | _ => simp [isCancel] at he

theorem ctx_foldl_mono (evs : List Ev) (w : World) (h : w.ctxCancelled = true) :
    (evs.foldl step w).ctxCancelled = true := by
  induction evs generalizing w with
  | nil => exact h
  | cons e rest ih => rw [List.foldl_cons]; exact ih _ (ctx_step_mono w e h)

theorem ctx_foldl (evs : List Ev) (w : World) (h : ∀ e ∈ evs, isCancel e = false) :
    (evs.foldl step w).ctxCancelled = w.ctxCancelled := by
  induction evs generalizing w with
  | nil => rfl
  | cons e rest ih =>
    rw [List.foldl_cons, ih _ (fun e' he' => h e' (List.mem_cons_of_mem _ he'))]
    exact ctx_step w e (h e List.mem_cons_self)

/-- a `.cancelCtx` that leaves `ctxCancelled = false` came after Connect had returned: it changes nothing -/
theorem inv_cancelCtx (w : World) (h : Inv w) (hc : (step w .cancelCtx).ctxCancelled = false) :
    Inv (step w .cancelCtx) := by
  cases hr : w.connectReturned.isSome with
  | true => rw [cancel_ineffective w hr]; exact h
  | false => rw [ctx_cancel_effective w hr] at hc; exact absurd hc (by decide)

/-- every event other than Disconnect and an effective cancellation of Connect's context preserves
    the invariant -/
theorem inv_step (w : World) (e : Ev) (h : Inv w) (he : isDisconnect e = false)
    (hc : (step w e).ctxCancelled = false) : Inv (step w e) := by
  cases e with
  | start => exact inv_start w h
  | app r => exact inv_app w r h
  | dialOk i => exact (inv_dialOk w i h).1
  | dialFail => exact inv_dialFail w h
  | waitElapsed => exact (inv_waitElapsed w h).1
  | cancelCtx => exact inv_cancelCtx w h hc
  | connackOk sp inb => exact (inv_connackOk w sp inb h).1
  | connackRefused => exact inv_connackRefused w h
  | connackNever => exact inv_connackNever w h
  | peerClose => exact inv_peerClose w h
  | inbound m qos => exact inv_inbound w m qos h
  | handle x => exact inv_handle w x h
  | disconnect => exact absurd he (by decide)


/-! ### liveness: friendly rounds -/

/-- the friendly environment: the back-off timer fires, dialling succeeds and the broker accepts,
    keeping the session. (In a state that is not backing off, `.waitElapsed` has no effect; in a state
    that is not inside DialContext, `.dialOk` has none.) -/
def friendly (n : Nat) (idStart : Nat) : List Ev :=
  (List.replicate n [Ev.waitElapsed, Ev.dialOk idStart, Ev.connackOk true []]).flatten

theorem friendly_succ (n i : Nat) :
    friendly (n + 1) i = Ev.waitElapsed :: Ev.dialOk i :: Ev.connackOk true [] :: friendly n i := by
  simp [friendly, List.replicate_succ]

theorem settled_of_up {w : World} {k : Nat} (h : Inv w) (hp : w.phase = .up k) : settled w :=
  have u := h.up k hp
  ⟨u.2.2.2.2.2.1, u.2.2.2.2.2.2, h.stuck, k, hp, u.2.2.1⟩

/-- the state after one friendly round -/
def roundOf (w : World) (i : Nat) : World :=
  step (step (step w .waitElapsed) (.dialOk i)) (.connackOk true [])

/-- one friendly round from any started state -/
theorem round (w : World) (i : Nat) (h : Inv w) (hp : w.phase ≠ .idle) :
    Inv (roundOf w i) ∧
      (settled (roundOf w i) ∨
        ((roundOf w i).phase = .backoff ∧ (roundOf w i).faults.length < w.faults.length)) ∧
      (settled w → roundOf w i = w) := by
  unfold roundOf
  have ⟨b1, b2, b3, b4⟩ := inv_waitElapsed w h
  generalize step w .waitElapsed = w0 at b1 b2 b3 b4
  have ⟨d1, d2, d3, d4⟩ := inv_dialOk w0 i b1
  generalize step w0 (.dialOk i) = w1 at d1 d2 d3 d4
  have ⟨c1, _, c3, c4⟩ := inv_connackOk w1 true [] d1
  generalize step w1 (.connackOk true []) = w2 at c1 c3 c4
  refine ⟨c1, ?_, ?_⟩
  · cases hph : w.phase with
    | idle => exact absurd hph hp
    | backoff =>
      have := c3 (d3 (b3 hph))
      rw [d2, b2] at this; exact this
    | dialGate =>
      have e : w0 = w := b4 (by simp [hph])
      subst e
      have := c3 (d3 hph)
      rw [d2] at this; exact this
    | connackGate k =>
      have e : w0 = w := b4 (by simp [hph])
      subst e
      have e : w1 = w0 := d4 (by simp [hph])
      subst e
      exact c3 ⟨k, hph⟩
    | up k =>
      have e : w0 = w := b4 (by simp [hph])
      subst e
      have e : w1 = w0 := d4 (by simp [hph])
      subst e
      have e2 : w2 = w1 := c4 (by simp [hph])
      subst e2
      exact Or.inl (settled_of_up h hph)
    | exited => exact absurd hph h.nex
  · intro ⟨_, _, _, k, hk, _⟩
    have e : w0 = w := b4 (by simp [hk])
    subst e
    have e : w1 = w0 := d4 (by simp [hk])
    subst e
    exact c4 (by simp [hk])

theorem foldl_friendly_succ (n i : Nat) (w : World) :
    (friendly (n + 1) i).foldl step w = (friendly n i).foldl step (roundOf w i) := by
  rw [friendly_succ, List.foldl_cons, List.foldl_cons, List.foldl_cons]
  rfl

theorem settled_rounds (n i : Nat) (w : World) (h : Inv w) (hs : settled w) :
    settled ((friendly n i).foldl step w) := by
  induction n with
  | zero => exact hs
  | succ n ih =>
    rw [foldl_friendly_succ, (round w i h (fun e => by
      obtain ⟨_, _, _, k, hk, _⟩ := hs; rw [hk] at e; exact absurd e (by simp))).2.2 hs]
    exact ih

/-- after more friendly rounds than there are faults left, the client is settled -/
theorem rounds (n i : Nat) (w : World) (h : Inv w) (hp : w.phase ≠ .idle) (hn : w.faults.length < n) :
    settled ((friendly n i).foldl step w) := by
  induction n generalizing w with
  | zero => exact absurd hn (Nat.not_lt_zero _)
  | succ n ih =>
    rw [foldl_friendly_succ]
    have ⟨r1, r2, _⟩ := round w i h hp
    generalize roundOf w i = w' at r1 r2
    cases r2 with
    | inl s => exact settled_rounds n i w' r1 s
    | inr l => exact ih w' r1 (by rw [l.1]; simp) (by omega)

theorem inv_init (s : Script) (hs : Fault.silent ∈ s.faults → s.cfg.respTimeout = true) : Inv (init s) := by
  refine ⟨rfl, rfl, rfl, hs, by simp [init], rfl, fun _ => ⟨rfl, rfl⟩, ?_, ?_, ?_, ?_⟩
  · intro h; exact absurd h (by simp [init, Phase.dialling])
  · intro k h; exact absurd h (by simp [init])
  · intro k h; exact absurd h (by simp [init])
  · simp [init]

/-- the invariant holds along every run without Disconnect in which the context given to Connect is
    not cancelled while Connect is still waiting (`ctxCancelled` is still false at the end) -/
theorem inv_foldl (evs : List Ev) (w : World) (h : Inv w) (nd : ∀ e ∈ evs, isDisconnect e = false)
    (nc : (evs.foldl step w).ctxCancelled = false) :
    Inv (evs.foldl step w) := by
  induction evs generalizing w with
  | nil => exact h
  | cons e rest ih =>
    rw [List.foldl_cons] at nc ⊢
    have hc : (step w e).ctxCancelled = false := by
      cases hc : (step w e).ctxCancelled with
      | false => rfl
      | true => rw [ctx_foldl_mono rest _ hc] at nc; exact absurd nc (by decide)
    exact ih _ (inv_step w e h (nd e List.mem_cons_self) hc)
      (fun e' he' => nd e' (List.mem_cons_of_mem _ he')) nc

theorem friendly_noDisconnect (n i : Nat) : ∀ e ∈ friendly n i, isDisconnect e = false := by
  induction n with
  | zero => simp [friendly]
  | succ n ih =>
    rw [friendly_succ]
    intro e he
    simp only [List.mem_cons] at he
    rcases he with rfl | rfl | rfl | he
    · rfl
    · rfl
    · rfl
    · exact ih e he

theorem friendly_noCancel (n i : Nat) : ∀ e ∈ friendly n i, isCancel e = false := by
  induction n with
  | zero => simp [friendly]
  | succ n ih =>
    rw [friendly_succ]
    intro e he
    simp only [List.mem_cons] at he
    rcases he with rfl | rfl | rfl | he
    · rfl
    · rfl
    · rfl
    · exact ih e he

theorem exec_append (s : Script) (evs : List Ev) :
    exec { s with evs := s.evs ++ evs } = evs.foldl step (exec s) := by
  simp only [exec, List.foldl_append]
  rfl


/-! ### a blocked task goroutine stays blocked: nothing is acknowledged any more -/

theorem progress_stuck (w : World) (h : w.stuck = true) : progress w = loopReact w := by
  unfold progress
  rw [runTasks_succ, if_pos (Or.inr h)]

theorem loopReact_sa (w : World) :
    (loopReact w).stuck = w.stuck ∧ (loopReact w).broker.acked = w.broker.acked := by
  unfold loopReact
  split
  · split
    · exact ⟨rfl, rfl⟩
    · split <;> exact ⟨rfl, rfl⟩
  · exact ⟨rfl, rfl⟩

theorem progress_sa (w : World) (h : w.stuck = true) :
    (progress w).stuck = true ∧ (progress w).broker.acked = w.broker.acked := by
  rw [progress_stuck w h]
  exact ⟨(loopReact_sa w).1.trans h, (loopReact_sa w).2⟩

theorem progress_connectFailed_sa (w : World) (k : Nat) (h : w.stuck = true) :
    (progress (connectFailed w k)).stuck = true ∧
      (progress (connectFailed w k)).broker.acked = w.broker.acked := by
  have := progress_sa (connectFailed w k) ((connectFailed_sa w k).1.trans h)
  exact ⟨this.1, this.2.trans (connectFailed_sa w k).2⟩

theorem stuck_step (w : World) (e : Ev) (h : w.stuck = true) :
    (step w e).stuck = true ∧ (step w e).broker.acked = w.broker.acked := by
  cases e with
  | start =>
    simp only [step]
    split <;> first | exact ⟨h, rfl⟩ | (split <;> first | exact ⟨h, rfl⟩ | (split <;> exact ⟨h, rfl⟩))
  | waitElapsed => simp only [step]; split <;> exact ⟨h, rfl⟩
  | cancelCtx =>
    simp only [step]
    split
    · exact ⟨h, rfl⟩
    · split
      · exact ⟨h, rfl⟩
      · exact ⟨h, rfl⟩
      · split <;> exact ⟨h, rfl⟩
      · exact progress_sa _ h
      · exact ⟨h, rfl⟩
      · exact ⟨h, rfl⟩
  | app r =>
    simp only [step]
    split
    · exact ⟨h, rfl⟩
    · exact progress_sa _ h
  | dialOk i =>
    simp only [step]
    split
    · exact ⟨h, rfl⟩
    · split
      · exact progress_sa _ h
      · exact ⟨h, rfl⟩
  | dialFail =>
    simp only [step]
    split
    · exact ⟨h, rfl⟩
    · split
      · exact ⟨h, rfl⟩
      · split <;> exact ⟨h, rfl⟩
  | connackOk sp inb =>
    cases hp : w.phase with
    | connackGate k =>
      rw [step_connackOk w k sp inb hp]
      have q := (quiet'_connackMid w k sp inb).quiet
      have e := connackEnd_spec (connackMid w k sp inb) k sp
      have := progress_sa (connackEnd (connackMid w k sp inb) k sp) (e.stuck.trans (q.stuck.trans h))
      exact ⟨this.1, this.2.trans ((congrArg Broker.acked e.broker).trans q.acked)⟩
    | idle => simp only [step, hp]; exact ⟨h, trivial⟩
    | backoff => simp only [step, hp]; exact ⟨h, trivial⟩
    | dialGate => simp only [step, hp]; exact ⟨h, trivial⟩
    | up k => simp only [step, hp]; exact ⟨h, trivial⟩
    | exited => simp only [step, hp]; exact ⟨h, trivial⟩
  | connackRefused =>
    simp only [step]
    split
    · exact progress_connectFailed_sa w _ h
    · exact ⟨h, rfl⟩
  | connackNever =>
    simp only [step]
    split
    · split
      · exact progress_connectFailed_sa w _ h
      · exact ⟨h, rfl⟩
    · exact ⟨h, rfl⟩
  | peerClose =>
    simp only [step]
    split
    · exact progress_sa _ h
    · exact ⟨h, rfl⟩
  | inbound m qos =>
    simp only [step]
    split
    · have q := (quiet'_deliverInbound w ‹Nat› m qos).quiet
      exact ⟨q.stuck.trans h, q.acked⟩
    · exact ⟨h, rfl⟩
  | handle x =>
    simp only [step]
    split <;> exact ⟨h, rfl⟩
  | disconnect =>
    simp only [step]
    split
    · exact ⟨h, rfl⟩
    · have := progress_sa { pushTask w .disconnect with stopped := true } h
      split <;> exact this

theorem stuck_foldl (evs : List Ev) (w : World) (h : w.stuck = true) :
    (evs.foldl step w).stuck = true ∧ (evs.foldl step w).broker.acked = w.broker.acked := by
  induction evs generalizing w with
  | nil => exact ⟨h, rfl⟩
  | cons e rest ih =>
    rw [List.foldl_cons]
    have := stuck_step w e h
    have := ih _ this.1
    exact ⟨this.1, this.2.trans ‹_ ∧ _›.2⟩


/-! ### a dialer that looks at its context (`deafDialer = false`)

  The two branches of `step` guarded by `ctxCancelled ∧ connectReturned.isNone` in phase `.dialGate` are
  reachable only with a dialer that ignores its context: with `deafDialer = false` an effective
  cancellation ends the loop (or finds it not started), and it stays there. -/

/-- what the task goroutine leaves alone -/
theorem frame_runTasks (fuel : Nat) (w : World) :
    (runTasks fuel w).cfg = w.cfg ∧ (runTasks fuel w).phase = w.phase ∧
      (runTasks fuel w).connectReturned = w.connectReturned := by
  induction fuel generalizing w with
  | zero => exact ⟨rfl, rfl, rfl⟩
  | succ fuel ih =>
    rw [runTasks_succ]
    split
    · exact ⟨rfl, rfl, rfl⟩
    · split
      · exact ⟨rfl, rfl, rfl⟩
      · split
        · exact ⟨rfl, rfl, rfl⟩
        · exact ⟨rfl, rfl, rfl⟩
        · next t rest k _ _ =>
          have m := runTask_mono (popTask w rest) k t
          split
          · exact ⟨m.cfg, m.phase, m.cret⟩
          · have a : (afterTask (runTask (popTask w rest) k t) k).cfg = (runTask (popTask w rest) k t).cfg ∧
                (afterTask (runTask (popTask w rest) k t) k).phase = (runTask (popTask w rest) k t).phase ∧
                (afterTask (runTask (popTask w rest) k t) k).connectReturned
                  = (runTask (popTask w rest) k t).connectReturned := by
              unfold afterTask; split <;> exact ⟨rfl, rfl, rfl⟩
            have i := ih (afterTask (runTask (popTask w rest) k t) k)
            exact ⟨i.1.trans (a.1.trans m.cfg), i.2.1.trans (a.2.1.trans m.phase),
              i.2.2.trans (a.2.2.trans m.cret)⟩

theorem frame_loopReact (w : World) :
    (loopReact w).cfg = w.cfg ∧ (loopReact w).connectReturned = w.connectReturned ∧
      ((loopReact w).phase = w.phase ∨
        ((∃ k, w.phase = .up k) ∧ ((loopReact w).phase = .exited ∨ (loopReact w).phase = .backoff))) := by
  unfold loopReact
  split
  · next k hk =>
    split
    · exact ⟨rfl, rfl, Or.inl rfl⟩
    · split
      · exact ⟨rfl, rfl, Or.inr ⟨⟨k, hk⟩, Or.inl rfl⟩⟩
      · exact ⟨rfl, rfl, Or.inr ⟨⟨k, hk⟩, Or.inr rfl⟩⟩
  · exact ⟨rfl, rfl, Or.inl rfl⟩

/-- `progress` leaves the configuration and what Connect returned alone; the only thing it does to the
    loop is to take it out of `.up` -/
theorem frame_progress (w : World) :
    (progress w).cfg = w.cfg ∧ (progress w).connectReturned = w.connectReturned ∧
      ((progress w).phase = w.phase ∨
        ((∃ k, w.phase = .up k) ∧ ((progress w).phase = .exited ∨ (progress w).phase = .backoff))) := by
  unfold progress
  have r := frame_runTasks (w.taskQ.length + 1) w
  have l := frame_loopReact (runTasks (w.taskQ.length + 1) w)
  rw [r.1, r.2.1, r.2.2] at l
  exact l

theorem cfg_connectFailed (w : World) (k : Nat) : (connectFailed w k).cfg = w.cfg := by
  unfold connectFailed
  simp only
  split <;> rfl

/-- the configuration never changes -/
theorem cfg_step (w : World) (e : Ev) : (step w e).cfg = w.cfg := by
  cases e with
  | start => simp only [step]; split <;> first | rfl | (split <;> first | rfl | (split <;> rfl))
  | app r => simp only [step]; split <;> first | rfl | exact (frame_progress _).1
  | dialOk i => simp only [step]; split <;> first | rfl | (split <;> first | rfl | exact (frame_progress _).1)
  | dialFail => simp only [step]; split <;> first | rfl | (split <;> first | rfl | (split <;> rfl))
  | waitElapsed => simp only [step]; split <;> rfl
  | cancelCtx =>
    simp only [step]
    split
    · rfl
    · split <;> first | rfl | exact (frame_progress _).1 | (split <;> rfl)
  | connackOk sp inb =>
    cases hp : w.phase with
    | connackGate k =>
      rw [step_connackOk w k sp inb hp, (frame_progress _).1]
      exact (connackEnd_spec _ k sp).cfg.trans (quiet'_connackMid w k sp inb).quiet.mono.cfg
    | idle => simp only [step, hp]
    | backoff => simp only [step, hp]
    | dialGate => simp only [step, hp]
    | up k => simp only [step, hp]
    | exited => simp only [step, hp]
  | connackRefused =>
    simp only [step]
    split
    · exact (frame_progress _).1.trans (cfg_connectFailed ..)
    · rfl
  | connackNever =>
    simp only [step]
    split
    · split
      · exact (frame_progress _).1.trans (cfg_connectFailed ..)
      · rfl
    · rfl
  | peerClose =>
    simp only [step]
    split
    · exact (frame_progress _).1.trans (quiet_kill ..).mono.cfg
    · rfl
  | inbound m qos =>
    simp only [step]
    split
    · exact (quiet'_deliverInbound ..).quiet.mono.cfg
    · rfl
  | handle x =>
    simp only [step]
    split <;> rfl
  | disconnect =>
    simp only [step]
    split
    · rfl
    · have := (frame_progress { pushTask w .disconnect with stopped := true }).1
      split <;> exact this

theorem cfg_foldl (evs : List Ev) (w : World) : (evs.foldl step w).cfg = w.cfg := by
  induction evs generalizing w with
  | nil => rfl
  | cons e rest ih => rw [List.foldl_cons, ih]; exact cfg_step w e

/-- with a dialer that looks at its context: once the context given to Connect is cancelled (which takes
    effect only while Connect has not returned), Connect never returns a session and the loop is not
    running — it has not been started yet or it has ended; and while a connection is up, Connect has
    returned -/
structure Aware (w : World) : Prop where
  cancelled : w.ctxCancelled = true → w.connectReturned = none ∧ (w.phase = .idle ∨ w.phase = .exited)
  up : ∀ k, w.phase = .up k → w.connectReturned.isSome = true

theorem Aware.notGate {w : World} (h : Aware w) (hp : w.phase ≠ .idle) (hx : w.phase ≠ .exited) :
    w.ctxCancelled = false := by
  cases hc : w.ctxCancelled with
  | false => rfl
  | true =>
    cases (h.cancelled hc).2 with
    | inl h => exact absurd h hp
    | inr h => exact absurd h hx

theorem Aware.ofFrame {w w' : World} (h : Aware w) (hc : w'.ctxCancelled = w.ctxCancelled)
    (hr : w'.connectReturned = w.connectReturned) (hp : w'.phase = w.phase) : Aware w' := by
  refine ⟨fun c => ?_, fun k hk => ?_⟩
  · rw [hr, hp]; exact h.cancelled (hc ▸ c)
  · rw [hr]; exact h.up k (hp ▸ hk)

theorem Aware.ofQuiet' {w w' : World} (q : Quiet' w w') (h : Aware w) : Aware w' :=
  h.ofFrame q.quiet.mono.ctx q.quiet.mono.cret q.quiet.mono.phase

theorem Aware.progress {w : World} (h : Aware w) : Aware (progress w) := by
  have f := frame_progress w
  refine ⟨fun c => ?_, fun k hk => ?_⟩
  · rw [ctx_progress] at c
    have a := h.cancelled c
    rw [f.2.1]
    refine ⟨a.1, ?_⟩
    cases f.2.2 with
    | inl e => rw [e]; exact a.2
    | inr e =>
      obtain ⟨⟨k, hk⟩, _⟩ := e
      rw [hk] at a
      exact absurd a.2 (by simp)
  · rw [f.2.1]
    cases f.2.2 with
    | inl e => exact h.up k (e ▸ hk)
    | inr e =>
      rw [hk] at e
      exact absurd e.2 (by simp)

/-- a world whose loop is not `.up` and whose context has not been cancelled -/
theorem Aware.ofLive {w : World} (hc : w.ctxCancelled = false) (hp : ∀ k, w.phase ≠ .up k) : Aware w :=
  ⟨fun c => absurd (hc ▸ c) (by decide), fun k hk => absurd hk (hp k)⟩

/-- a world whose loop has ended with Connect still waiting -/
theorem Aware.ofExited {w : World} (hr : w.connectReturned = none) (hp : w.phase = .exited) : Aware w :=
  ⟨fun _ => ⟨hr, Or.inr hp⟩, fun k hk => absurd (hp ▸ hk) (by simp)⟩

theorem connackEnd_cret (w : World) (k : Nat) (sp : Bool) :
    (connackEnd w k sp).connectReturned.isSome = true := by
  have e : (connackEnd w k sp).connectReturned
      = if w.connectReturned.isNone then some sp else w.connectReturned := by
    simp only [connackEnd, pushTask]
    repeat' split
    all_goals rfl
  rw [e]
  cases h : w.connectReturned <;> simp

theorem aware_step (w : World) (e : Ev) (hd : w.cfg.deafDialer = false) (h : Aware w) : Aware (step w e) := by
  cases e with
  | start =>
    simp only [step]
    split
    · exact h
    · next hp =>
      have hp : w.phase = .idle := by simpa using hp
      split
      · next hc =>
        rw [if_neg (by simp [hd])]
        exact Aware.ofExited (h.cancelled hc).1 rfl
      · next hc => exact Aware.ofLive (by simpa using hc) (by simp)
  | app r =>
    simp only [step]
    split
    · exact h.ofFrame rfl rfl rfl
    · exact (h.ofFrame (w' := pushTask { w with accepted := w.accepted ++ [r] } (.req r)) rfl rfl rfl).progress
  | dialOk i =>
    simp only [step]
    split
    · exact h
    · next hp =>
      have hp : w.phase = .dialGate := by simpa using hp
      have hc := h.notGate (by simp [hp]) (by simp [hp])
      rw [if_neg (by simp [hc])]
      exact Aware.ofLive hc (by simp)
  | dialFail =>
    simp only [step]
    split
    · exact h
    · next hp =>
      have hp : w.phase = .dialGate := by simpa using hp
      have hc := h.notGate (by simp [hp]) (by simp [hp])
      split
      · exact Aware.ofLive hc (by simp)
      · rw [if_neg (by simp [hc])]
        exact Aware.ofLive hc (by simp)
  | waitElapsed =>
    simp only [step]
    split
    · next hp => exact Aware.ofLive (h.notGate (by simp [hp]) (by simp [hp])) (by simp)
    · exact h
  | cancelCtx =>
    simp only [step]
    split
    · exact h
    · next hn =>
      have hr : w.connectReturned = none := by
        cases e : w.connectReturned with
        | none => rfl
        | some b => exact absurd (Or.inr (by simp [e])) hn
      cases hp : w.phase with
      | idle =>
        exact ⟨fun _ => ⟨hr, Or.inl rfl⟩, fun k hk => absurd hk (by simp)⟩
      | backoff => exact Aware.ofExited hr rfl
      | dialGate =>
        simp only
        rw [if_neg (by simp [hd])]
        exact Aware.ofExited hr rfl
      | connackGate k =>
        exact (Aware.ofExited (w := { kill { w with ctxCancelled := true, connReady := true } k with
          phase := .exited, connectErr := true }) hr rfl).progress
      | exited => exact Aware.ofExited hr rfl
      | up k =>
        have := h.up k hp
        rw [hr] at this
        exact absurd this (by simp)
  | connackOk sp inb =>
    cases hp : w.phase with
    | connackGate k =>
      rw [step_connackOk w k sp inb hp]
      have hc := h.notGate (by simp [hp]) (by simp [hp])
      have q := (quiet'_connackMid w k sp inb).quiet
      have e := connackEnd_spec (connackMid w k sp inb) k sp
      refine Aware.progress ⟨fun c => ?_, fun _ _ => connackEnd_cret ..⟩
      rw [e.ctx, q.mono.ctx, hc] at c
      exact absurd c (by decide)
    | idle => simp only [step, hp]; exact h
    | backoff => simp only [step, hp]; exact h
    | dialGate => simp only [step, hp]; exact h
    | up k => simp only [step, hp]; exact h
    | exited => simp only [step, hp]; exact h
  | connackRefused =>
    simp only [step]
    split
    · next k hp =>
      have hc := h.notGate (by simp [hp]) (by simp [hp])
      refine (Aware.ofLive ((ctx_connectFailed w k).trans hc) ?_).progress
      unfold connectFailed
      simp only
      split <;> simp
    · exact h
  | connackNever =>
    simp only [step]
    split
    · next k hp =>
      split
      · have hc := h.notGate (by simp [hp]) (by simp [hp])
        refine (Aware.ofLive ((ctx_connectFailed w k).trans hc) ?_).progress
        unfold connectFailed
        simp only
        split <;> simp
      · exact h
    · exact h
  | peerClose =>
    simp only [step]
    split
    · next k hp =>
      have q := quiet_kill w k
      exact (h.ofFrame q.mono.ctx q.mono.cret q.mono.phase).progress
    · exact h
  | inbound m qos =>
    simp only [step]
    split
    · exact Aware.ofQuiet' (quiet'_deliverInbound ..) h
    · exact h
  | handle x =>
    simp only [step]
    split <;> exact h.ofFrame rfl rfl rfl
  | disconnect =>
    simp only [step]
    split
    · exact h
    · have a := (h.ofFrame (w' := { pushTask w .disconnect with stopped := true }) rfl rfl rfl).progress
      generalize progress { pushTask w .disconnect with stopped := true } = w' at a
      split
      · next k hk =>
        refine ⟨fun c => ?_, fun k hk => absurd hk (by simp)⟩
        have := (a.cancelled c).2
        rw [hk] at this
        exact absurd this (by simp)
      · next hk =>
        refine ⟨fun c => ?_, fun k hk => absurd hk (by simp)⟩
        have := (a.cancelled c).2
        rw [hk] at this
        exact absurd this (by simp)
      · exact a

theorem aware_foldl (evs : List Ev) (w : World) (hd : w.cfg.deafDialer = false) (h : Aware w) :
    Aware (evs.foldl step w) := by
  induction evs generalizing w with
  | nil => exact h
  | cons e rest ih =>
    rw [List.foldl_cons]
    exact ih _ (by rw [cfg_step]; exact hd) (aware_step w e hd h)

theorem aware_init (s : Script) : Aware (init s) :=
  ⟨fun c => absurd c (by simp [init]), fun k hk => absurd hk (by simp [init])⟩

/-- the guard of the two deaf-dialer branches of `.dialOk` / `.dialFail` -/
def deafBranch (w : World) : Prop :=
  w.phase = .dialGate ∧ w.ctxCancelled = true ∧ w.connectReturned.isNone = true

theorem Aware.noDeafBranch {w : World} (h : Aware w) : ¬ deafBranch w := by
  intro ⟨hp, hc, _⟩
  have := h.notGate (by simp [hp]) (by simp [hp])
  rw [hc] at this
  exact absurd this (by decide)

/-- with a context-aware dialer `.dialOk` and `.dialFail` are what they were before `deafDialer` existed -/
theorem dialOk_aware (w : World) (i : Nat) (h : Aware w) (hp : w.phase = .dialGate) :
    step w (.dialOk i) =
      { w with conns := w.conns ++ [{ ctr := i, handler := w.handler, pkts := [(.connect, .sent .ok)] }],
               cli := some w.conns.length, connReady := false, goroutine := true,
               gConnected := if w.goroutine ∧ w.gConnected ∧ ¬ w.stuck then false else w.gConnected,
               phase := .connackGate w.conns.length } := by
  have hc := h.notGate (by simp [hp]) (by simp [hp])
  simp only [step]
  rw [if_neg (by simp [hp]), if_neg (by simp [hc])]

theorem dialFail_aware (w : World) (h : Aware w) (hp : w.phase = .dialGate) :
    step w .dialFail =
      if w.stopped then { w with phase := .exited }
      else { w with phase := .backoff, waits := w.waits ++ [w.waitExp], waitExp := w.waitExp + 1 } := by
  have hc := h.notGate (by simp [hp]) (by simp [hp])
  simp only [step]
  rw [if_neg (by simp [hp])]
  split
  · rfl
  · rw [if_neg (by simp [hc])]


end Mqtt.Retry
