/-
  Helper lemmas about the established-subscription list (subscriptions.go) for property C08.
-/
import MqttVerif.Spec.SubsSpec

namespace Mqtt

/-- no topic filter occurs twice in the list -/
def NoDupTopics (d : SubList) : Prop := (d.map (·.topic)).Nodup

theorem noDupTopics_nil : NoDupTopics [] := by simp [NoDupTopics]

theorem noDupTopics_cons {e : Subscription} {L : SubList} :
    NoDupTopics (e :: L) ↔ (∀ x ∈ L, x.topic ≠ e.topic) ∧ NoDupTopics L := by
  simp only [NoDupTopics, List.map_cons, List.nodup_cons, List.mem_map, not_exists, not_and]

/-! ### `toMap` -/

theorem toMap_nil (t : Bytes) : Spec.toMap [] t = none := rfl

theorem toMap_cons (e : Subscription) (L : SubList) (t : Bytes) :
    Spec.toMap (e :: L) t = if e.topic = t then some e.qos else Spec.toMap L t := by
  simp only [Spec.toMap, List.find?_cons]
  by_cases h : e.topic = t <;> simp [h]

theorem toMap_eq_none_iff {L : SubList} {t : Bytes} :
    Spec.toMap L t = none ↔ ∀ e ∈ L, e.topic ≠ t := by
  simp [Spec.toMap]

theorem toMap_eq_some_iff {L : SubList} (h : NoDupTopics L) {t : Bytes} {q : Nat} :
    Spec.toMap L t = some q ↔ (⟨t, q⟩ : Subscription) ∈ L := by
  induction L with
  | nil => simp [toMap_nil]
  | cons e L ih =>
    rw [noDupTopics_cons] at h
    rw [toMap_cons, List.mem_cons]
    by_cases he : e.topic = t
    · rw [if_pos he]
      constructor
      · intro hq
        left
        cases e
        simp_all
      · intro hm
        cases hm with
        | inl hm => rw [← hm]
        | inr hm => exact absurd he.symm (h.1 _ hm)
    · rw [if_neg he, ih h.2]
      constructor
      · intro hm; exact Or.inr hm
      · intro hm
        cases hm with
        | inl hm => rw [← hm] at he; exact absurd rfl he
        | inr hm => exact hm

/-- two duplicate-free lists with the same entries except those with topic `x` denote the same
    map except at `x` -/
theorem toMap_del_of_mem {L L' : SubList} {x : Bytes} (h : NoDupTopics L) (h' : NoDupTopics L')
    (hm : ∀ e, e ∈ L' ↔ e ∈ L ∧ e.topic ≠ x) :
    Spec.toMap L' = fun t => if t = x then none else Spec.toMap L t := by
  funext t
  by_cases ht : t = x
  · simp only [if_pos ht]
    rw [toMap_eq_none_iff]
    intro e he
    rw [ht]
    exact ((hm e).1 he).2
  · simp only [if_neg ht]
    apply Option.ext
    intro q
    rw [toMap_eq_some_iff h', toMap_eq_some_iff h, hm]
    simp [ht]

/-! ### Subscribe -/

theorem replaceQoS_none {d : SubList} {s : Subscription} (h : replaceQoS d s = none) :
    ∀ e ∈ d, e.topic ≠ s.topic := by
  induction d with
  | nil => simp
  | cons e d ih =>
    simp only [replaceQoS] at h
    by_cases he : e.topic = s.topic
    · simp [he] at h
    · simp only [if_neg he, Option.map_eq_none_iff] at h
      intro x hx
      cases List.mem_cons.1 hx with
      | inl hx => rw [hx]; exact he
      | inr hx => exact ih h x hx

theorem replaceQoS_some {d d' : SubList} {s : Subscription} (h : replaceQoS d s = some d') :
    d'.map (·.topic) = d.map (·.topic) ∧
      ∀ t, Spec.toMap d' t = if t = s.topic then some s.qos else Spec.toMap d t := by
  induction d generalizing d' with
  | nil => simp [replaceQoS] at h
  | cons e d ih =>
    simp only [replaceQoS] at h
    by_cases he : e.topic = s.topic
    · simp only [if_pos he, Option.some.injEq] at h
      subst h
      refine ⟨by simp, fun t => ?_⟩
      rw [toMap_cons, toMap_cons]
      by_cases ht : t = s.topic
      · simp [ht, he]
      · have : ¬ e.topic = t := fun h => ht (h ▸ he)
        simp [ht, this]
    · simp only [if_neg he, Option.map_eq_some_iff] at h
      obtain ⟨d1, h1, rfl⟩ := h
      obtain ⟨ihm, iht⟩ := ih h1
      refine ⟨by simp [ihm], fun t => ?_⟩
      rw [toMap_cons, toMap_cons, iht]
      by_cases ht : t = s.topic
      · subst ht
        simp [he]
      · simp [ht]

theorem noDupTopics_append_single {d : SubList} {s : Subscription} (h : NoDupTopics d)
    (hs : ∀ e ∈ d, e.topic ≠ s.topic) : NoDupTopics (d ++ [s]) := by
  induction d with
  | nil => simp [NoDupTopics]
  | cons e d ih =>
    rw [noDupTopics_cons] at h
    rw [List.cons_append, noDupTopics_cons]
    refine ⟨?_, ih h.2 (fun x hx => hs x (List.mem_cons_of_mem _ hx))⟩
    intro x hx
    rw [List.mem_append, List.mem_singleton] at hx
    cases hx with
    | inl hx => exact h.1 x hx
    | inr hx => rw [hx]; exact (hs e List.mem_cons_self).symm

theorem toMap_append_single {d : SubList} {s : Subscription}
    (hs : ∀ e ∈ d, e.topic ≠ s.topic) (t : Bytes) :
    Spec.toMap (d ++ [s]) t = if t = s.topic then some s.qos else Spec.toMap d t := by
  induction d with
  | nil =>
    rw [List.nil_append, toMap_cons, toMap_nil]
    by_cases ht : t = s.topic
    · simp [ht]
    · have : ¬ s.topic = t := fun h => ht h.symm
      simp [ht, this]
  | cons e d ih =>
    rw [List.cons_append, toMap_cons, toMap_cons, ih (fun x hx => hs x (List.mem_cons_of_mem _ hx))]
    have he := hs e List.mem_cons_self
    by_cases ht : t = s.topic
    · subst ht
      simp [he]
    · simp [ht]

theorem applySubs_spec (d : SubList) (l : List Subscription) (h : NoDupTopics d) :
    NoDupTopics (applySubs d l) ∧ Spec.toMap (applySubs d l) = Spec.setSubs (Spec.toMap d) l := by
  induction l generalizing d with
  | nil => exact ⟨h, rfl⟩
  | cons s rest ih =>
    simp only [applySubs, Spec.setSubs]
    split
    · next d' hr =>
      obtain ⟨hm, ht⟩ := replaceQoS_some hr
      have hd' : NoDupTopics d' := by unfold NoDupTopics; rw [hm]; exact h
      obtain ⟨i1, i2⟩ := ih d' hd'
      refine ⟨i1, ?_⟩
      rw [i2]
      congr 1
      funext t
      exact ht t
    · next hr =>
      have hs := replaceQoS_none hr
      obtain ⟨i1, i2⟩ := ih (d ++ [s]) (noDupTopics_append_single h hs)
      refine ⟨i1, ?_⟩
      rw [i2]
      congr 1
      funext t
      exact toMap_append_single hs t

/-! ### Unsubscribe -/

theorem findIdx_some {d : SubList} {l : Nat} {t : Bytes} {i : Nat} (h : findIdx d l t = some i) :
    i < l ∧ ∃ e, d[i]? = some e ∧ e.topic = t := by
  unfold findIdx at h
  have hp := List.find?_some h
  have hm := List.mem_of_find?_eq_some h
  rw [List.mem_range] at hm
  refine ⟨hm, ?_⟩
  cases hd : d[i]? with
  | none => simp [hd] at hp
  | some e => simp [hd] at hp; exact ⟨e, rfl, hp⟩

theorem findIdx_none {d : SubList} {l : Nat} {t : Bytes} (h : findIdx d l t = none) :
    ∀ i, i < l → ∀ e, d[i]? = some e → e.topic ≠ t := by
  unfold findIdx at h
  rw [List.find?_eq_none] at h
  intro i hi e he
  have := h i (List.mem_range.2 hi)
  simpa [he] using this

/-- erasing the entry at index `i` from a duplicate-free list removes exactly its topic -/
theorem eraseIdx_spec {L : SubList} {i : Nat} {e0 : Subscription} (hnd : NoDupTopics L)
    (h0 : L[i]? = some e0) :
    NoDupTopics (L.eraseIdx i) ∧ ∀ e, e ∈ L.eraseIdx i ↔ e ∈ L ∧ e.topic ≠ e0.topic := by
  induction L generalizing i with
  | nil => simp at h0
  | cons x L ih =>
    rw [noDupTopics_cons] at hnd
    cases i with
    | zero =>
      simp only [List.getElem?_cons_zero, Option.some.injEq] at h0
      subst h0
      simp only [List.eraseIdx_cons_zero, List.mem_cons]
      refine ⟨hnd.2, fun e => ⟨fun he => ⟨Or.inr he, hnd.1 e he⟩, fun he => ?_⟩⟩
      cases he.1 with
      | inl h => rw [h] at he; exact absurd rfl he.2
      | inr h => exact h
    | succ i =>
      rw [List.getElem?_cons_succ] at h0
      obtain ⟨i1, i2⟩ := ih hnd.2 h0
      have hx : x.topic ≠ e0.topic := (hnd.1 e0 (List.mem_of_getElem? h0)).symm
      simp only [List.eraseIdx_cons_succ, List.mem_cons]
      refine ⟨noDupTopics_cons.2 ⟨fun y hy => hnd.1 y ((i2 y).1 hy).1, i1⟩, fun e => ?_⟩
      rw [i2]
      constructor
      · intro he
        cases he with
        | inl h => rw [h]; exact ⟨Or.inl rfl, hx⟩
        | inr h => exact ⟨Or.inr h.1, h.2⟩
      · intro he
        cases he.1 with
        | inl h => exact Or.inl h
        | inr h => exact Or.inr ⟨h, he.2⟩

/-- `l--; d[i] = d[l]` on the live prefix is, up to order, the removal of entry `i` -/
theorem take_set_perm {d : SubList} {k i : Nat} {e : Subscription} (hi : i < k + 1)
    (he : d[k]? = some e) :
    ((d.set i e).take k).Perm ((d.take (k + 1)).eraseIdx i) := by
  obtain ⟨hk, hke⟩ := List.getElem?_eq_some_iff.1 he
  have hF : (d.take k).length = k := by rw [List.length_take]; omega
  rw [List.take_succ_eq_append_getElem hk, hke]
  by_cases hik : i = k
  · subst hik
    rw [← hke, List.set_getElem_self, List.eraseIdx_append_of_length_le (by omega)]
    simp [hF]
  · have hlt : i < (d.take k).length := by omega
    rw [List.take_set, List.eraseIdx_append_of_lt_length hlt,
      List.set_eq_take_append_cons_drop, if_pos hlt, List.eraseIdx_eq_take_drop_succ]
    exact List.perm_middle.trans (List.perm_append_singleton _ _).symm

theorem removeAt_spec {d : SubList} {l i : Nat} {t : Bytes} {e0 : Subscription}
    (hl : l ≤ d.length) (hnd : NoDupTopics (d.take l)) (hi : i < l)
    (h0 : d[i]? = some e0) (ht : e0.topic = t) :
    (removeAt d l i).2 ≤ (removeAt d l i).1.length ∧
      NoDupTopics ((removeAt d l i).1.take (removeAt d l i).2) ∧
      Spec.toMap ((removeAt d l i).1.take (removeAt d l i).2) =
        fun t' => if t' = t then none else Spec.toMap (d.take l) t' := by
  obtain ⟨k, rfl⟩ : ∃ k, l = k + 1 := ⟨l - 1, by omega⟩
  have hk : k < d.length := by omega
  have he : d[k]? = some d[k] := List.getElem?_eq_getElem hk
  have hr : removeAt d (k + 1) i = (d.set i d[k], k) := by
    simp only [removeAt, Nat.add_sub_cancel, he]
  rw [hr]
  have hp := take_set_perm hi he
  have h0' : (d.take (k + 1))[i]? = some e0 := by rw [List.getElem?_take_of_lt hi]; exact h0
  obtain ⟨e1, e2⟩ := eraseIdx_spec hnd h0'
  have hnd' : NoDupTopics ((d.set i d[k]).take k) := by
    unfold NoDupTopics
    exact (hp.map _).nodup_iff.2 e1
  refine ⟨by simp only [List.length_set]; omega, hnd', ?_⟩
  apply toMap_del_of_mem hnd hnd'
  intro e
  rw [hp.mem_iff, e2, ht]

theorem applyUnsubsAux_spec (d : SubList) (l : Nat) (ts : List Bytes)
    (hl : l ≤ d.length) (hnd : NoDupTopics (d.take l)) :
    (applyUnsubsAux d l ts).2 ≤ (applyUnsubsAux d l ts).1.length ∧
      NoDupTopics ((applyUnsubsAux d l ts).1.take (applyUnsubsAux d l ts).2) ∧
      Spec.toMap ((applyUnsubsAux d l ts).1.take (applyUnsubsAux d l ts).2) =
        Spec.delSubs (Spec.toMap (d.take l)) ts := by
  induction ts generalizing d l with
  | nil => exact ⟨hl, hnd, rfl⟩
  | cons t rest ih =>
    simp only [applyUnsubsAux, Spec.delSubs]
    split
    · next i hf =>
      obtain ⟨hi, e0, h0, ht⟩ := findIdx_some hf
      obtain ⟨r1, r2, r3⟩ := removeAt_spec hl hnd hi h0 ht
      obtain ⟨i1, i2, i3⟩ := ih _ _ r1 r2
      exact ⟨i1, i2, by rw [i3, r3]⟩
    · next hf =>
      obtain ⟨i1, i2, i3⟩ := ih d l hl hnd
      refine ⟨i1, i2, ?_⟩
      rw [i3]
      congr 1
      funext t'
      by_cases htt : t' = t
      · rw [if_pos htt, htt, toMap_eq_none_iff]
        intro e hm
        obtain ⟨j, hj⟩ := List.getElem?_of_mem hm
        rw [List.getElem?_take] at hj
        split at hj
        · next hjl => exact findIdx_none hf j hjl e hj
        · simp at hj
      · rw [if_neg htt]

theorem applyUnsubs_spec (d : SubList) (ts : List Bytes) (h : NoDupTopics d) :
    NoDupTopics (applyUnsubs d ts) ∧
      Spec.toMap (applyUnsubs d ts) = Spec.delSubs (Spec.toMap d) ts := by
  have := applyUnsubsAux_spec d d.length ts (Nat.le_refl _) (by rw [List.take_length]; exact h)
  rw [List.take_length] at this
  exact ⟨this.2.1, this.2.2⟩

end Mqtt
