/-
  Helper lemmas for the layering theorems of Props/C12l: the one-step request summary `Retry.send`
  (Model/Retry.lean) against the base-client transition system (Model/BaseClient.lean).

    §1 (namespace `Mqtt.BC`)     what a request call and the events that follow it do to a client with a
                                  live connection: `After` (connection still up), `Ended` (connection ended)
    §2 (namespace `Mqtt.Retry`)  `send` as equations: result, liveness of the connection, the remaining script
-/
import MqttVerif.Proofs.BaseClient
import MqttVerif.Props.C11
import MqttVerif.Model.Retry

set_option linter.unusedSimpArgs false

namespace Mqtt.BC

/-! ## §1 one request on a live connection -/

/-- the request kinds (the calls that the retry stack issues on a base client) -/
def isReq : Kind → Bool
  | .pub1 | .pub2 | .sub _ | .unsub => true
  | _ => false

theorem isReq_ne_connect {k : Kind} (h : isReq k = true) : k ≠ .connect := by rintro rfl; cases h
theorem isReq_ne_disconnect {k : Kind} (h : isReq k = true) : k ≠ .disconnect := by rintro rfl; cases h
theorem isReq_hasRetry {k : Kind} (h : isReq k = true) : hasRetry k = true := by cases k <;> first | rfl | cases h
theorem isReq_ctxRetry {k : Kind} (h : isReq k = true) : ctxRetry (waitPhase k) = true := by
  cases k <;> first | rfl | cases h
theorem isReq_blocked {k : Kind} (h : isReq k = true) (id : Nat) : blocked ⟨k, id, waitPhase k⟩ = true := by
  cases k <;> first | rfl | cases h

/-- `After s s' c ws wf` : `s'` is `s` plus one new call record `c` (at index `s.calls.length`) and the
    written packets `ws`; all older call records are untouched, the connection is still up, and the transport
    refuses writes iff `wf`. -/
structure After (s s' : St) (c : Call) (ws : List W) (wf : Bool) : Prop where
  new : s'.calls[s.calls.length]? = some c
  old : ∀ j, j < s.calls.length → s'.calls[j]? = s.calls[j]?
  len : s'.calls.length = s.calls.length + 1
  writes : s'.writes = s.writes ++ ws
  inited : s'.inited = true
  doneClosed : s'.doneClosed = false
  transportOpen : s'.transportOpen = true
  writeFails : s'.writeFails = wf

/-- `Ended s s' c ws` : as `After`, but the connection has ended: every call that was blocked has been released -/
structure Ended (s s' : St) (c : Call) (ws : List W) : Prop where
  new : s'.calls[s.calls.length]? = some c
  old : ∀ j, j < s.calls.length → s'.calls[j]? = (s.calls[j]?).map release
  len : s'.calls.length = s.calls.length + 1
  writes : s'.writes = s.writes ++ ws
  inited : s'.inited = true
  doneClosed : s'.doneClosed = true
  transportOpen : s'.transportOpen = false

theorem After.canWrite {s s' : St} {c : Call} {ws : List W} {wf : Bool} (h : After s s' c ws wf) :
    canWrite s' = !wf := by
  simp [BC.canWrite, h.transportOpen, h.writeFails]

/-- a request call on a client that can write: registered, written, blocked -/
theorem After.start (s : St) (k : Kind) (id : Nat) (hk : isReq k = true)
    (hi : s.inited = true) (hd : s.doneClosed = false) (ht : s.transportOpen = true) (hw : s.writeFails = false) :
    After s (step s (.call k id)) ⟨k, id, waitPhase k⟩ [reqW k id] false := by
  have hcw : BC.canWrite s = true := by simp [BC.canWrite, ht, hw]
  have e : step s (.call k id) =
      push { reg s k id with writes := s.writes ++ [reqW k id] } ⟨k, id, waitPhase k⟩ := by
    simp only [step]
    rw [startCall_other s k id (isReq_ne_connect hk) (isReq_ne_disconnect hk), if_pos hi, if_pos hcw]
  rw [e]
  refine ⟨?_, ?_, ?_, ?_, ?_, ?_, ?_, ?_⟩
  · rw [push_getElem?]; simp
  · intro j hj; rw [push_getElem?]; simp [hj]
  · simp
  · simp
  · simp [hi]
  · simp [hd]
  · simp [ht]
  · simp [hw]

/-- the signaller entry of the new call -/
theorem start_target (s : St) (k : Kind) (id : Nat) (hk : isReq k = true)
    (hi : s.inited = true) (hw : BC.canWrite s = true) :
    regOf (step s (.call k id)) ⟨k, id, waitPhase k⟩ = some s.calls.length := by
  have e : step s (.call k id) =
      push { reg s k id with writes := s.writes ++ [reqW k id] } ⟨k, id, waitPhase k⟩ := by
    simp only [step]
    rw [startCall_other s k id (isReq_ne_connect hk) (isReq_ne_disconnect hk), if_pos hi, if_pos hw]
  rw [e]
  exact (regOf_congr (s := reg s k id) _ rfl rfl rfl rfl rfl rfl rfl).trans
    (regOf_reg_new s k id (isReq_ne_disconnect hk))

/-- a request call on a client that cannot write (transport closed or refusing): fails at once, with a
    retry handle; nothing is written and nothing else changes -/
theorem call_cannot_write (s : St) (k : Kind) (id : Nat) (hk : isReq k = true)
    (hi : s.inited = true) (hw : BC.canWrite s = false) :
    (step s (.call k id)).calls = s.calls ++ [⟨k, id, .returned (.writeErr true)⟩] ∧
    (step s (.call k id)).writes = s.writes ∧
    (step s (.call k id)).inited = s.inited ∧
    (step s (.call k id)).doneClosed = s.doneClosed ∧
    (step s (.call k id)).transportOpen = s.transportOpen ∧
    (step s (.call k id)).writeFails = s.writeFails := by
  have e : step s (.call k id) = push (reg s k id) ⟨k, id, .returned (.writeErr (hasRetry k))⟩ := by
    simp only [step]
    rw [startCall_other s k id (isReq_ne_connect hk) (isReq_ne_disconnect hk), if_pos hi, if_neg (by simp [hw])]
  rw [e, isReq_hasRetry hk]
  simp [hi]

section after
variable {s s1 : St} {c : Call} {ws : List W} {wf : Bool}

/-- a `setPhase` of the new call on a state that agrees with `s1` up to signaller maps and appended writes -/
theorem After.onSetPhase (h : After s s1 c ws wf) (s2 : St) (p : Phase) (ws' : List W)
    (h0 : s2.calls = s1.calls) (h1 : s2.writes = s1.writes ++ ws') (h2 : s2.inited = s1.inited)
    (h3 : s2.doneClosed = s1.doneClosed) (h4 : s2.transportOpen = s1.transportOpen)
    (h5 : s2.writeFails = s1.writeFails) :
    After s (setPhase s2 s.calls.length p) { c with phase := p } (ws ++ ws') wf := by
  refine ⟨?_, ?_, ?_, ?_, ?_, ?_, ?_, ?_⟩
  · rw [setPhase_getElem?_self, h0, h.new]; rfl
  · intro j hj; rw [setPhase_getElem?_ne _ _ _ _ (by omega), h0]; exact h.old j hj
  · rw [setPhase_calls_length, h0]; exact h.len
  · rw [setPhase_writes, h1, h.writes, List.append_assoc]
  · rw [setPhase_inited, h2]; exact h.inited
  · rw [setPhase_doneClosed, h3]; exact h.doneClosed
  · rw [setPhase_transportOpen, h4]; exact h.transportOpen
  · rw [setPhase_writeFails, h5]; exact h.writeFails

theorem After.onSetPhase' (h : After s s1 c ws wf) (s2 : St) (p : Phase)
    (h0 : s2.calls = s1.calls) (h1 : s2.writes = s1.writes) (h2 : s2.inited = s1.inited)
    (h3 : s2.doneClosed = s1.doneClosed) (h4 : s2.transportOpen = s1.transportOpen)
    (h5 : s2.writeFails = s1.writeFails) :
    After s (setPhase s2 s.calls.length p) { c with phase := p } ws wf := by
  have := h.onSetPhase s2 p [] h0 (by simp [h1]) h2 h3 h4 h5
  simpa using this

/-- the transport starts / stops refusing writes -/
theorem After.onWriteFail (h : After s s1 c ws wf) (on : Bool) : After s (step s1 (.writeFail on)) c ws on :=
  ⟨h.new, h.old, h.len, h.writes, h.inited, h.doneClosed, h.transportOpen, rfl⟩

/-- the context of the new call is cancelled / its deadline passes -/
theorem After.onCancel (h : After s s1 c ws wf) (hb : blocked c = true) :
    After s (step s1 (.cancel s.calls.length)) { c with phase := .returned (.ctxErr (ctxRetry c.phase)) } ws wf := by
  rw [(C11.cancel_releases s1 s.calls.length c h.new hb).1]
  exact h.onSetPhase' s1 _ rfl rfl rfl rfl rfl rfl

/-- the broker closes the connection -/
theorem After.onPeerClose (h : After s s1 c ws wf) : Ended s (step s1 .peerClose) (release c) ws := by
  have e : step s1 .peerClose = endNow s1 .eof := by
    simp only [step, h.inited, if_true]; exact readerEnds_of_not_done _ _ h.doneClosed
  rw [e]
  refine ⟨?_, ?_, ?_, ?_, ?_, ?_, ?_⟩
  · rw [endNow_getElem?, h.new]; rfl
  · intro j hj; rw [endNow_getElem?, h.old j hj]
  · simp [h.len]
  · simp [h.writes]
  · simp [h.inited]
  · simp
  · simp

theorem After.onPuback {id : Nat} (h : After s s1 ⟨.pub1, id, .waitPubAck⟩ ws wf)
    (hm : mapGet s1.pubAck id = some s.calls.length) :
    After s (step s1 (.inb (.puback id))) ⟨.pub1, id, .returned .ok⟩ ws wf := by
  simp only [step]
  rw [inbound_puback h.inited h.doneClosed h.new id hm rfl]
  exact h.onSetPhase' _ _ rfl rfl rfl rfl rfl rfl

theorem After.onUnsuback {id : Nat} (h : After s s1 ⟨.unsub, id, .waitUnsubAck⟩ ws wf)
    (hm : mapGet s1.unsubAck id = some s.calls.length) :
    After s (step s1 (.inb (.unsuback id))) ⟨.unsub, id, .returned .ok⟩ ws wf := by
  simp only [step]
  rw [inbound_unsuback h.inited h.doneClosed h.new id hm rfl]
  exact h.onSetPhase' _ _ rfl rfl rfl rfl rfl rfl

theorem After.onSuback {id : Nat} {codes : List Nat}
    (h : After s s1 ⟨.sub codes.length, id, .waitSubAck⟩ ws wf)
    (hm : mapGet s1.subAck id = some s.calls.length) :
    After s (step s1 (.inb (.suback id codes))) ⟨.sub codes.length, id, .returned (.okSub codes)⟩ ws wf := by
  simp only [step]
  rw [inbound_suback h.inited h.doneClosed h.new id codes.length codes hm rfl rfl, if_neg (by simp)]
  exact h.onSetPhase' _ _ rfl rfl rfl rfl rfl rfl

theorem After.onPubcomp {id : Nat} (h : After s s1 ⟨.pub2, id, .waitPubComp⟩ ws wf)
    (hm : mapGet s1.pubComp id = some s.calls.length) :
    After s (step s1 (.inb (.pubcomp id))) ⟨.pub2, id, .returned .ok⟩ ws wf := by
  simp only [step]
  rw [inbound_pubcomp h.inited h.doneClosed h.new id hm rfl]
  exact h.onSetPhase' _ _ rfl rfl rfl rfl rfl rfl

/-- PUBREC for the new QoS 2 publish while the transport accepts writes: PUBREL written, PUBCOMP waiter registered -/
theorem After.onPubrecOk {id : Nat} (h : After s s1 ⟨.pub2, id, .waitPubRec⟩ ws false)
    (hm : mapGet s1.pubRec id = some s.calls.length) :
    After s (step s1 (.inb (.pubrec id))) ⟨.pub2, id, .waitPubComp⟩ (ws ++ [.pubrel id]) false ∧
    mapGet (step s1 (.inb (.pubrec id))).pubComp id = some s.calls.length := by
  simp only [step]
  rw [inbound_pubrec h.inited h.doneClosed h.new id hm rfl, if_pos (by simpa using h.canWrite)]
  exact ⟨h.onSetPhase _ _ [.pubrel id] rfl rfl rfl rfl rfl rfl, by simp [mapGet_mapSet]⟩

/-- PUBREC for the new QoS 2 publish while the transport refuses writes: the PUBREL write fails -/
theorem After.onPubrecFail {id : Nat} (h : After s s1 ⟨.pub2, id, .waitPubRec⟩ ws true)
    (hm : mapGet s1.pubRec id = some s.calls.length) :
    After s (step s1 (.inb (.pubrec id))) ⟨.pub2, id, .returned (.writeErr true)⟩ ws true := by
  simp only [step]
  rw [inbound_pubrec h.inited h.doneClosed h.new id hm rfl, if_neg (by simpa using h.canWrite)]
  exact h.onSetPhase' _ _ rfl rfl rfl rfl rfl rfl

end after

/-- the transport starts refusing writes, then a request call: it fails at once with the write error -/
theorem After.startFail (s : St) (k : Kind) (id : Nat) (hk : isReq k = true)
    (hi : s.inited = true) (hd : s.doneClosed = false) (ht : s.transportOpen = true) :
    After s (step (step s (.writeFail true)) (.call k id)) ⟨k, id, .returned (.writeErr true)⟩ [] true := by
  have hcw : BC.canWrite (step s (.writeFail true)) = false := by simp [BC.canWrite, step]
  obtain ⟨h1, h2, h3, h4, h5, h6⟩ := call_cannot_write (step s (.writeFail true)) k id hk hi hcw
  refine ⟨?_, ?_, ?_, ?_, ?_, ?_, ?_, ?_⟩
  · rw [h1]; show (s.calls ++ _)[s.calls.length]? = _; simp
  · intro j hj; rw [h1]; show (s.calls ++ _)[j]? = _; rw [List.getElem?_append_left hj]
  · rw [h1]; show (s.calls ++ _).length = _; simp
  · rw [h2]; show s.writes = _; simp
  · rw [h3]; exact hi
  · rw [h4]; exact hd
  · rw [h5]; exact ht
  · rw [h6]; rfl

/-- what the end of the connection does to a blocked call, spelled out -/
theorem release_blocked (c : Call) (hb : blocked c = true) :
    release c = { c with phase := .returned (.closed (ctxRetry c.phase)) } := by
  cases c with | mk k id ph => cases ph <;> first | rfl | (simp [blocked] at hb)

/-- a list of events with exactly one call in it is well-formed when the id of that call is fresh -/
theorem WFFrom.no_call (b : Bool) : ∀ (evs : List Ev) (s : St), (∀ e ∈ evs, ∀ k id, e ≠ .call k id) → WFFrom b s evs := by
  intro evs
  induction evs with
  | nil => intro s _; trivial
  | cons e es ih =>
    intro s h
    refine ⟨fun k id he => absurd he (h e (by simp) k id), ih _ (fun e' he' => h e' (by simp [he']))⟩

theorem WFFrom.one_call (b : Bool) (k : Kind) (id : Nat) (post : List Ev)
    (hpost : ∀ e ∈ post, ∀ k id, e ≠ .call k id) :
    ∀ (pre : List Ev) (s : St), (∀ e ∈ pre, ∀ k id, e ≠ .call k id) → Fresh b (pre.foldl step s) k id →
      WFFrom b s (pre ++ [.call k id] ++ post) := by
  intro pre
  induction pre with
  | nil =>
    intro s _ hf
    refine ⟨fun k' id' he => ?_, WFFrom.no_call b post _ hpost⟩
    cases he; exact hf
  | cons e es ih =>
    intro s h hf
    refine ⟨fun k' id' he => absurd he (h e (by simp) k' id'), ?_⟩
    exact ih _ (fun e' he' => h e' (by simp [he'])) hf

/-- `release` of a blocked request call: ErrClosedTransport with a retry handle -/
theorem release_req (k : Kind) (id : Nat) (hk : isReq k = true) :
    release ⟨k, id, waitPhase k⟩ = ⟨k, id, .returned (.closed true)⟩ := by
  cases k <;> first | rfl | cases hk

theorem release_waitPubComp (id : Nat) :
    release ⟨.pub2, id, .waitPubComp⟩ = ⟨.pub2, id, .returned (.closed true)⟩ := rfl

/-- `Fresh` looks at the call records only -/
theorem Fresh.congr {b : Bool} {s s' : St} {k : Kind} {id : Nat} (h : Fresh b s k id) (h0 : s'.calls = s.calls) :
    Fresh b s' k id := by
  intro j c hc hb; rw [h0] at hc; exact h j c hc hb

end Mqtt.BC


namespace Mqtt.Retry

/-! ## §2 `send`, as equations -/

/-- the result of a request packet that waits for its acknowledgement, written on a live connection -/
def sentBy (f : Fault) (rt : Bool) : Sent :=
  match f with
  | .ok => .acked
  | .silent => if rt then .timedOut else .stuck
  | _ => .failed

/-- the faults that leave the connection open -/
def survives : Fault → Bool
  | .ok | .silent => true
  | _ => false

@[simp] theorem setConn_cfg (w : World) (k : Nat) (c : Conn) : (setConn w k c).cfg = w.cfg := rfl
@[simp] theorem setConn_faults (w : World) (k : Nat) (c : Conn) : (setConn w k c).faults = w.faults := rfl
@[simp] theorem setConn_stuck (w : World) (k : Nat) (c : Conn) : (setConn w k c).stuck = w.stuck := rfl
@[simp] theorem setConn_pid (w : World) (k : Nat) (c : Conn) : (setConn w k c).pid = w.pid := rfl
@[simp] theorem setConn_length (w : World) (k : Nat) (c : Conn) : (setConn w k c).conns.length = w.conns.length := by
  simp [setConn]
@[simp] theorem logPkt_cfg (w : World) (k : Nat) (p : Pkt) (x : Wire) : (logPkt w k p x).cfg = w.cfg := rfl
@[simp] theorem logPkt_faults (w : World) (k : Nat) (p : Pkt) (x : Wire) : (logPkt w k p x).faults = w.faults := rfl
@[simp] theorem logPkt_stuck (w : World) (k : Nat) (p : Pkt) (x : Wire) : (logPkt w k p x).stuck = w.stuck := rfl
@[simp] theorem logPkt_length (w : World) (k : Nat) (p : Pkt) (x : Wire) :
    (logPkt w k p x).conns.length = w.conns.length := by simp [logPkt]
@[simp] theorem kill_cfg (w : World) (k : Nat) : (kill w k).cfg = w.cfg := rfl
@[simp] theorem kill_faults (w : World) (k : Nat) : (kill w k).faults = w.faults := rfl
@[simp] theorem kill_stuck (w : World) (k : Nat) : (kill w k).stuck = w.stuck := rfl
@[simp] theorem kill_length (w : World) (k : Nat) : (kill w k).conns.length = w.conns.length := by simp [kill]

theorem getConn_setConn (w : World) (k : Nat) (c : Conn) :
    getConn (setConn w k c) k = if k < w.conns.length then c else {} := by
  simp only [getConn, setConn, List.getD_eq_getElem?_getD, List.getElem?_set_self']
  split
  · next h => simp [h]
  · next h => simp [h]

theorem getConn_default (w : World) (k : Nat) (h : ¬ k < w.conns.length) : getConn w k = {} := by
  simp [getConn, List.getD_eq_getElem?_getD, List.getElem?_eq_none (Nat.le_of_not_lt h)]

/-- writing the log entry does not change whether the connection is alive -/
@[simp] theorem logPkt_alive (w : World) (k : Nat) (p : Pkt) (x : Wire) :
    (getConn (logPkt w k p x) k).alive = (getConn w k).alive := by
  unfold logPkt
  rw [getConn_setConn]
  split
  · rfl
  · next h => rw [getConn_default w k h]

theorem kill_alive (w : World) (k : Nat) : (getConn (kill w k) k).alive = !decide (k < w.conns.length) := by
  unfold kill
  rw [getConn_setConn]
  split
  · next h => simp [h]
  · next h => simp [h]

theorem nextFault_conns (w : World) : (nextFault w).2.conns = w.conns := by unfold nextFault; split <;> rfl
theorem nextFault_cfg (w : World) : (nextFault w).2.cfg = w.cfg := by unfold nextFault; split <;> rfl
theorem nextFault_stuck (w : World) : (nextFault w).2.stuck = w.stuck := by unfold nextFault; split <;> rfl
theorem nextFault_fst_congr {w w' : World} (h : w'.faults = w.faults) : (nextFault w').1 = (nextFault w).1 := by
  unfold nextFault; rw [h]; split <;> rfl
theorem nextFault_snd_faults_congr {w w' : World} (h : w'.faults = w.faults) :
    (nextFault w').2.faults = (nextFault w).2.faults := by
  unfold nextFault; rw [h]; split <;> simp_all

theorem getConn_congr {w w' : World} (h : w'.conns = w.conns) (k : Nat) : getConn w' k = getConn w k := by
  simp [getConn, h]

theorem nextFault_alive (w : World) (k : Nat) : (getConn (nextFault w).2 k).alive = (getConn w k).alive := by
  rw [getConn_congr (nextFault_conns w)]

/-- a request on a connection that is already dead: logged as such, fails at once, consumes no fault -/
theorem send_dead (w : World) (k : Nat) (p : Pkt) (b : Bool) (h : (getConn w k).alive = false) :
    send w k p b = (logPkt w k p .dead, .failed) := by
  simp [send, h]

/-- `send` of a request that waits for its acknowledgement, on a live connection -/
def sendLive (w : World) (k : Nat) (p : Pkt) : World × Sent :=
  let f := (nextFault w).1
  let w1 := logPkt (nextFault w).2 k p (.sent f)
  let w2 := { w1 with broker := w1.broker.process p }
  match f with
  | .ok => (w2, .acked)
  | .writeFail => (kill w1 k, .failed)
  | .lostReq => (kill w1 k, .failed)
  | .lostAck => (kill w2 k, .failed)
  | .silent => if w1.cfg.respTimeout then (w2, .timedOut) else ({ w2 with stuck := true }, .stuck)

theorem send_live_eq (w : World) (k : Nat) (p : Pkt) (h : (getConn w k).alive = true) :
    send w k p true = sendLive w k p := by
  unfold send sendLive
  rw [if_neg (by simp [h])]
  rcases nextFault w with ⟨f, w1⟩
  cases f <;> simp only [] <;> rfl

section sendLive
variable (w : World) (k : Nat) (p : Pkt) (h : (getConn w k).alive = true)
include h

theorem send_snd : (send w k p true).2 = sentBy (nextFault w).1 w.cfg.respTimeout := by
  rw [send_live_eq w k p h]
  have hc : (logPkt (nextFault w).2 k p (.sent (nextFault w).1)).cfg = w.cfg := nextFault_cfg w
  unfold sendLive
  simp only [hc]
  cases (nextFault w).1 <;> simp only [sentBy]
  split <;> rfl

theorem send_cfg : (send w k p true).1.cfg = w.cfg := by
  rw [send_live_eq w k p h]
  have hc : (logPkt (nextFault w).2 k p (.sent (nextFault w).1)).cfg = w.cfg := nextFault_cfg w
  unfold sendLive
  cases (nextFault w).1 <;> simp only [] <;> first | exact nextFault_cfg w | (split <;> exact nextFault_cfg w)

theorem send_length : (send w k p true).1.conns.length = w.conns.length := by
  have hc := congrArg List.length (nextFault_conns w)
  rw [send_live_eq w k p h]
  unfold sendLive
  cases (nextFault w).1 <;> simp only []
  · show (logPkt _ k p _).conns.length = _
    rw [logPkt_length, hc]
  · rw [kill_length, logPkt_length, hc]
  · rw [kill_length, logPkt_length, hc]
  · rw [kill_length]
    show (logPkt _ k p _).conns.length = _
    rw [logPkt_length, hc]
  · split
    · show (logPkt _ k p _).conns.length = _
      rw [logPkt_length, hc]
    · show (logPkt _ k p _).conns.length = _
      rw [logPkt_length, hc]

theorem send_faults : (send w k p true).1.faults = (nextFault w).2.faults := by
  rw [send_live_eq w k p h]
  unfold sendLive
  cases (nextFault w).1 <;> simp only [] <;> first | rfl | (split <;> rfl)

/-- the connection is dead afterwards exactly for the faults that kill it -/
theorem send_alive (hk : k < w.conns.length) :
    (getConn (send w k p true).1 k).alive = survives (nextFault w).1 := by
  have hc := congrArg List.length (nextFault_conns w)
  have ha := nextFault_alive w k
  rw [send_live_eq w k p h]
  unfold sendLive
  have hk1 : ∀ x, k < (logPkt (nextFault w).2 k p x).conns.length := by
    intro x; rw [logPkt_length, hc]; exact hk
  cases (nextFault w).1 <;> simp only [survives]
  · show (getConn (logPkt _ k p _) k).alive = true
    rw [logPkt_alive, ha, h]
  · rw [kill_alive]; simp [hc, hk]
  · rw [kill_alive]; simp [hc, hk]
  · rw [kill_alive]
    have := hk1 (.sent .lostAck)
    simpa using this
  · split
    · show (getConn (logPkt _ k p _) k).alive = true
      rw [logPkt_alive, ha, h]
    · show (getConn (logPkt _ k p _) k).alive = true
      rw [logPkt_alive, ha, h]

/-- whatever the index, a fault that leaves the connection open leaves it alive -/
theorem send_alive_of_survives (hs : survives (nextFault w).1 = true) :
    (getConn (send w k p true).1 k).alive = true := by
  have ha := nextFault_alive w k
  rw [send_live_eq w k p h]
  unfold sendLive
  revert hs
  cases (nextFault w).1 <;> simp only [survives] <;> intro hs <;> first | cases hs | skip
  · show (getConn (logPkt _ k p _) k).alive = true
    rw [logPkt_alive, ha, h]
  · split
    · show (getConn (logPkt _ k p _) k).alive = true
      rw [logPkt_alive, ha, h]
    · show (getConn (logPkt _ k p _) k).alive = true
      rw [logPkt_alive, ha, h]

/-- `stuck` is raised exactly when the result is `stuck` -/
theorem send_stuck : (send w k p true).1.stuck = (w.stuck || decide ((send w k p true).2 = .stuck)) := by
  have hc := nextFault_stuck w
  rw [send_live_eq w k p h]
  unfold sendLive
  cases (nextFault w).1 <;> simp only []
  · show (nextFault w).2.stuck = _; rw [hc]; simp
  · show (nextFault w).2.stuck = _; rw [hc]; simp
  · show (nextFault w).2.stuck = _; rw [hc]; simp
  · show (nextFault w).2.stuck = _; rw [hc]; simp
  · split
    · show (nextFault w).2.stuck = _; rw [hc]; simp
    · simp

end sendLive

/-! ### the `…Attempt` functions: identifier first, then `send`, then the result as an `Outcome` -/

/-- how `…Impl` reports the result of its request: nil, blocked for ever, or an error carrying the handle `h` -/
def outcomeOf (h : Option Entry) : Sent → Outcome
  | .acked => .done
  | .stuck => .stuck
  | s => .fail h (errOf s)

/-- publish.go:136-138: `message.ID` is filled once, from the connection's counter -/
def assignId (w : World) (k m : Nat) : World × Nat :=
  match lookupPid w m with
  | some id => (w, id)
  | none =>
    (setConn { w with pid := w.pid ++ [(m, (newID (getConn w k).ctr).2)] } k
      { getConn w k with ctr := (newID (getConn w k).ctr).1 }, (newID (getConn w k).ctr).2)

/-- subscribe.go / unsubscribe.go: a fresh identifier on every attempt -/
def freshId (w : World) (k : Nat) : World × Nat :=
  (setConn w k { getConn w k with ctr := (newID (getConn w k).ctr).1 }, (newID (getConn w k).ctr).2)

theorem setCtr_alive (w w' : World) (h : w'.conns = w.conns) (k x : Nat) :
    (getConn (setConn w' k { getConn w k with ctr := x }) k).alive = (getConn w k).alive := by
  rw [getConn_setConn]
  split
  · rfl
  · next hk => rw [getConn_default w k (by rw [← h]; exact hk)]

theorem assignId_alive (w : World) (k m : Nat) : (getConn (assignId w k m).1 k).alive = (getConn w k).alive := by
  unfold assignId; split
  · rfl
  · exact setCtr_alive w _ rfl k _
theorem assignId_faults (w : World) (k m : Nat) : (assignId w k m).1.faults = w.faults := by
  unfold assignId; split <;> rfl
theorem assignId_cfg (w : World) (k m : Nat) : (assignId w k m).1.cfg = w.cfg := by
  unfold assignId; split <;> rfl
theorem assignId_stuck (w : World) (k m : Nat) : (assignId w k m).1.stuck = w.stuck := by
  unfold assignId; split <;> rfl
theorem assignId_length (w : World) (k m : Nat) : (assignId w k m).1.conns.length = w.conns.length := by
  unfold assignId; split
  · rfl
  · simp

theorem freshId_alive (w : World) (k : Nat) : (getConn (freshId w k).1 k).alive = (getConn w k).alive :=
  setCtr_alive w w rfl k _
theorem freshId_faults (w : World) (k : Nat) : (freshId w k).1.faults = w.faults := rfl
theorem freshId_cfg (w : World) (k : Nat) : (freshId w k).1.cfg = w.cfg := rfl
theorem freshId_stuck (w : World) (k : Nat) : (freshId w k).1.stuck = w.stuck := rfl
theorem freshId_length (w : World) (k : Nat) : (freshId w k).1.conns.length = w.conns.length := by
  simp [freshId]

theorem relAttempt_snd (w : World) (k m id : Nat) :
    (relAttempt w k m id).2 = outcomeOf (some (.rePubRel m)) (send w k (.pubrel id m) true).2 := by
  unfold relAttempt
  rcases send w k (.pubrel id m) true with ⟨w', s⟩
  cases s <;> rfl

theorem relAttempt_conns (w : World) (k m id : Nat) :
    (relAttempt w k m id).1.conns = (send w k (.pubrel id m) true).1.conns := by
  unfold relAttempt
  rcases send w k (.pubrel id m) true with ⟨w', s⟩
  cases s <;> rfl

theorem relAttempt_stuck (w : World) (k m id : Nat) :
    (relAttempt w k m id).1.stuck = (send w k (.pubrel id m) true).1.stuck := by
  unfold relAttempt
  rcases send w k (.pubrel id m) true with ⟨w', s⟩
  cases s <;> rfl

theorem pubAttempt_eq (w : World) (k m qos : Nat) (dup : Bool) :
    pubAttempt w k m qos dup =
      (let a := assignId w k m
       let r := send a.1 k (.publish m qos a.2 dup) (qos ≠ 0)
       match r.2 with
       | .acked =>
         if qos = 2 then relAttempt r.1 k m a.2
         else if qos = 1 then ({ r.1 with broker := { r.1.broker with acked := r.1.broker.acked ++ [.pub m 1] } }, .done)
         else (r.1, .done)
       | .stuck => (r.1, .stuck)
       | s => (r.1, .fail (if qos = 0 then none else some (.rePublish m qos)) (errOf s))) := by
  unfold pubAttempt assignId
  cases lookupPid w m <;> rfl

/-- `pubAttempt` at QoS 1 -/
theorem pubAttempt1_eq (w : World) (k m : Nat) (dup : Bool) :
    pubAttempt w k m 1 dup =
      (let a := assignId w k m
       let r := send a.1 k (.publish m 1 a.2 dup) true
       match r.2 with
       | .acked => ({ r.1 with broker := { r.1.broker with acked := r.1.broker.acked ++ [.pub m 1] } }, .done)
       | s => (r.1, outcomeOf (some (.rePublish m 1)) s)) := by
  have hd : (decide ((1:Nat) ≠ 0)) = true := rfl
  rw [pubAttempt_eq]
  simp only [hd]
  generalize send (assignId w k m).1 k (.publish m 1 (assignId w k m).2 dup) true = r
  rcases r with ⟨w', s⟩
  cases s <;> rfl

theorem pubAttempt1_snd (w : World) (k m : Nat) (dup : Bool) :
    (pubAttempt w k m 1 dup).2 =
      outcomeOf (some (.rePublish m 1)) (send (assignId w k m).1 k (.publish m 1 (assignId w k m).2 dup) true).2 := by
  rw [pubAttempt1_eq]
  simp only []
  rcases send (assignId w k m).1 k (.publish m 1 (assignId w k m).2 dup) true with ⟨w', s⟩
  cases s <;> rfl

theorem pubAttempt1_conns (w : World) (k m : Nat) (dup : Bool) :
    (pubAttempt w k m 1 dup).1.conns =
      (send (assignId w k m).1 k (.publish m 1 (assignId w k m).2 dup) true).1.conns := by
  rw [pubAttempt1_eq]
  simp only []
  rcases send (assignId w k m).1 k (.publish m 1 (assignId w k m).2 dup) true with ⟨w', s⟩
  cases s <;> rfl

theorem pubAttempt1_stuck (w : World) (k m : Nat) (dup : Bool) :
    (pubAttempt w k m 1 dup).1.stuck =
      (send (assignId w k m).1 k (.publish m 1 (assignId w k m).2 dup) true).1.stuck := by
  rw [pubAttempt1_eq]
  simp only []
  rcases send (assignId w k m).1 k (.publish m 1 (assignId w k m).2 dup) true with ⟨w', s⟩
  cases s <;> rfl

/-- `pubAttempt` at QoS 2: PUBLISH, and only when PUBREC has arrived, PUBREL -/
theorem pubAttempt2_eq (w : World) (k m : Nat) (dup : Bool) :
    pubAttempt w k m 2 dup =
      (let a := assignId w k m
       let r := send a.1 k (.publish m 2 a.2 dup) true
       match r.2 with
       | .acked => relAttempt r.1 k m a.2
       | s => (r.1, outcomeOf (some (.rePublish m 2)) s)) := by
  have hd : (decide ((2:Nat) ≠ 0)) = true := rfl
  rw [pubAttempt_eq]
  simp only [hd]
  generalize send (assignId w k m).1 k (.publish m 2 (assignId w k m).2 dup) true = r
  rcases r with ⟨w', s⟩
  cases s <;> rfl

theorem pubAttempt2_of_acked (w : World) (k m : Nat) (dup : Bool)
    (h : (send (assignId w k m).1 k (.publish m 2 (assignId w k m).2 dup) true).2 = .acked) :
    pubAttempt w k m 2 dup =
      relAttempt (send (assignId w k m).1 k (.publish m 2 (assignId w k m).2 dup) true).1 k m (assignId w k m).2 := by
  rw [pubAttempt2_eq]
  simp only []
  revert h
  generalize send (assignId w k m).1 k (.publish m 2 (assignId w k m).2 dup) true = r
  rcases r with ⟨w', s⟩
  intro h
  simp only at h
  subst h
  rfl


theorem pubAttempt2_of_not_acked (w : World) (k m : Nat) (dup : Bool)
    (h : (send (assignId w k m).1 k (.publish m 2 (assignId w k m).2 dup) true).2 ≠ .acked) :
    pubAttempt w k m 2 dup =
      ((send (assignId w k m).1 k (.publish m 2 (assignId w k m).2 dup) true).1,
        outcomeOf (some (.rePublish m 2)) (send (assignId w k m).1 k (.publish m 2 (assignId w k m).2 dup) true).2) := by
  rw [pubAttempt2_eq]
  dsimp only
  revert h
  generalize send (assignId w k m).1 k (.publish m 2 (assignId w k m).2 dup) true = r
  rcases r with ⟨w', s⟩
  intro h
  cases s <;> first | rfl | exact absurd rfl h

theorem subAttempt_snd (w : World) (k : Nat) (subs : List Subscription) :
    (subAttempt w k subs).2 =
      outcomeOf (some (.reSub subs)) (send (freshId w k).1 k (.subscribe (freshId w k).2 subs) true).2 := by
  unfold subAttempt freshId
  simp only []
  rcases send _ k (.subscribe _ subs) true with ⟨w', s⟩
  cases s <;> rfl

theorem subAttempt_conns (w : World) (k : Nat) (subs : List Subscription) :
    (subAttempt w k subs).1.conns = (send (freshId w k).1 k (.subscribe (freshId w k).2 subs) true).1.conns := by
  unfold subAttempt freshId
  simp only []
  rcases send _ k (.subscribe _ subs) true with ⟨w', s⟩
  cases s <;> rfl

theorem subAttempt_stuck (w : World) (k : Nat) (subs : List Subscription) :
    (subAttempt w k subs).1.stuck = (send (freshId w k).1 k (.subscribe (freshId w k).2 subs) true).1.stuck := by
  unfold subAttempt freshId
  simp only []
  rcases send _ k (.subscribe _ subs) true with ⟨w', s⟩
  cases s <;> rfl

theorem unsubAttempt_snd (w : World) (k : Nat) (ts : List Bytes) :
    (unsubAttempt w k ts).2 =
      outcomeOf (some (.reUnsub ts)) (send (freshId w k).1 k (.unsubscribe (freshId w k).2 ts) true).2 := by
  unfold unsubAttempt freshId
  simp only []
  rcases send _ k (.unsubscribe _ ts) true with ⟨w', s⟩
  cases s <;> rfl

theorem unsubAttempt_conns (w : World) (k : Nat) (ts : List Bytes) :
    (unsubAttempt w k ts).1.conns = (send (freshId w k).1 k (.unsubscribe (freshId w k).2 ts) true).1.conns := by
  unfold unsubAttempt freshId
  simp only []
  rcases send _ k (.unsubscribe _ ts) true with ⟨w', s⟩
  cases s <;> rfl

theorem unsubAttempt_stuck (w : World) (k : Nat) (ts : List Bytes) :
    (unsubAttempt w k ts).1.stuck = (send (freshId w k).1 k (.unsubscribe (freshId w k).2 ts) true).1.stuck := by
  unfold unsubAttempt freshId
  simp only []
  rcases send _ k (.unsubscribe _ ts) true with ⟨w', s⟩
  cases s <;> rfl

/-! ### the first `send` of an attempt, seen from the world before the identifier was assigned -/

section firstSend
variable (w : World) (k m : Nat) (p : Pkt) (h : (getConn w k).alive = true)
include h

theorem assign_send_snd :
    (send (assignId w k m).1 k p true).2 = sentBy (nextFault w).1 w.cfg.respTimeout := by
  rw [send_snd _ k p (by rw [assignId_alive]; exact h), assignId_cfg, nextFault_fst_congr (assignId_faults w k m)]

theorem assign_send_alive (hk : k < w.conns.length) :
    (getConn (send (assignId w k m).1 k p true).1 k).alive = survives (nextFault w).1 := by
  rw [send_alive _ k p (by rw [assignId_alive]; exact h) (by rw [assignId_length]; exact hk),
    nextFault_fst_congr (assignId_faults w k m)]

theorem assign_send_stuck :
    (send (assignId w k m).1 k p true).1.stuck =
      (w.stuck || decide (sentBy (nextFault w).1 w.cfg.respTimeout = .stuck)) := by
  rw [send_stuck _ k p (by rw [assignId_alive]; exact h), assignId_stuck, assign_send_snd w k m p h]

theorem fresh_send_snd :
    (send (freshId w k).1 k p true).2 = sentBy (nextFault w).1 w.cfg.respTimeout := by
  rw [send_snd _ k p (by rw [freshId_alive]; exact h), freshId_cfg, nextFault_fst_congr (freshId_faults w k)]

theorem fresh_send_alive (hk : k < w.conns.length) :
    (getConn (send (freshId w k).1 k p true).1 k).alive = survives (nextFault w).1 := by
  rw [send_alive _ k p (by rw [freshId_alive]; exact h) (by rw [freshId_length]; exact hk),
    nextFault_fst_congr (freshId_faults w k)]

/-- the world in which the PUBREL of a QoS 2 publish is sent, when the PUBLISH was acknowledged -/
theorem second_send (hf : survives (nextFault w).1 = true) :
    let w2 := (send (assignId w k m).1 k p true).1
    (getConn w2 k).alive = true ∧ (nextFault w2).1 = (nextFault (nextFault w).2).1 ∧ w2.cfg = w.cfg ∧
      w2.conns.length = w.conns.length ∧ w2.stuck = (send (assignId w k m).1 k p true).1.stuck := by
  intro w2
  have ha : (getConn (assignId w k m).1 k).alive = true := by rw [assignId_alive]; exact h
  refine ⟨?_, ?_, ?_, ?_, rfl⟩
  · exact send_alive_of_survives _ k p ha (by rw [nextFault_fst_congr (assignId_faults w k m)]; exact hf)
  · apply nextFault_fst_congr
    show (send (assignId w k m).1 k p true).1.faults = _
    rw [send_faults _ k p ha]
    exact nextFault_snd_faults_congr (assignId_faults w k m)
  · show (send (assignId w k m).1 k p true).1.cfg = _
    rw [send_cfg _ k p ha, assignId_cfg]
  · show (send (assignId w k m).1 k p true).1.conns.length = _
    rw [send_length _ k p ha, assignId_length]

end firstSend

theorem nextFault_cons (w : World) (f : Fault) (rest : List Fault) (h : w.faults = f :: rest) :
    (nextFault w).1 = f ∧ (nextFault w).2.faults = rest := by
  unfold nextFault; rw [h]; exact ⟨rfl, rfl⟩

end Mqtt.Retry
