/-
  Ties between the constants / structural facts regenerated from the Go sources on every run
  (Generated/Facts.lean, tools/extract) and the hand-written model. A value that is found and
  differs breaks these theorems at `lake build`; a value whose syntactic pattern is no longer found
  is `none` and passes (the boundary-value correspondence cases cover the same ground).
-/
import MqttVerif.Generated.Facts
import MqttVerif.Model.Codec
import MqttVerif.Model.Parse
import MqttVerif.Model.Backoff

namespace Mqtt.FactsTie

def agrees (g : Option Nat) (m : Nat) : Bool := match g with | none => true | some v => v == m
def agreesL (g : Option (List Nat)) (m : List Nat) : Bool := match g with | none => true | some v => v == m


-- The theorems live in the per-property tie modules (Props/C05t, C06t, C09t, C20t, …): a fact that no longer
-- matches must break the obligations of that property only.

end Mqtt.FactsTie
