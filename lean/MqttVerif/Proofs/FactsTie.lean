/-
  Ties between the constants / structural facts regenerated from the Go sources on every run
  (Generated/Facts.lean, tools/extract) and the hand-written model. A value that is found and
  differs breaks these theorems at `lake build`; a value whose syntactic pattern is no longer found
  is `none` and passes (the boundary-value correspondence cases cover the same ground).
-/
import MqttVerif.Generated.Facts
import MqttVerif.Model.Codec
import MqttVerif.Model.Parse
import MqttVerif.Model.Backoff

namespace Mqtt.FactsTie

def agrees (g : Option Nat) (m : Nat) : Bool := match g with | none => true | some v => v == m
def agreesL (g : Option (List Nat)) (m : List Nat) : Bool := match g with | none => true | some v => v == m

/-- packet.go / publish.go / connect.go / subscribe.go constants (C05, C06) -/
theorem packet_constants :
    agrees Generated.packetConnect packetConnect ∧ agrees Generated.packetConnAck packetConnAck ∧
    agrees Generated.packetPublish packetPublish ∧ agrees Generated.packetPubAck packetPubAck ∧
    agrees Generated.packetPubRec packetPubRec ∧ agrees Generated.packetPubRel packetPubRel ∧
    agrees Generated.packetPubComp packetPubComp ∧ agrees Generated.packetSubscribe packetSubscribe ∧
    agrees Generated.packetSubAck packetSubAck ∧ agrees Generated.packetUnsubscribe packetUnsubscribe ∧
    agrees Generated.packetUnsubAck packetUnsubAck ∧ agrees Generated.packetPingReq packetPingReq ∧
    agrees Generated.packetPingResp packetPingResp ∧ agrees Generated.packetDisconnect packetDisconnect ∧
    agrees Generated.packetFromClient packetFromClient := by decide

theorem flag_constants :
    agrees Generated.publishFlagRetain publishFlagRetain ∧ agrees Generated.publishFlagQoS1 publishFlagQoS1 ∧
    agrees Generated.publishFlagQoS2 publishFlagQoS2 ∧ agrees Generated.publishFlagQoSMask publishFlagQoSMask ∧
    agrees Generated.publishFlagDup publishFlagDup ∧
    agrees Generated.connectFlagCleanSession connectFlagCleanSession ∧ agrees Generated.connectFlagWill connectFlagWill ∧
    agrees Generated.connectFlagWillQoS1 connectFlagWillQoS1 ∧ agrees Generated.connectFlagWillQoS2 connectFlagWillQoS2 ∧
    agrees Generated.connectFlagWillRetain connectFlagWillRetain ∧ agrees Generated.connectFlagPassword connectFlagPassword ∧
    agrees Generated.connectFlagUserName connectFlagUserName ∧
    agrees Generated.subscribeFlagQoS1 1 ∧ agrees Generated.subscribeFlagQoS2 2 ∧ agrees Generated.protocolLevel4 4 := by decide

/-- packet.go `remainingLength`: thresholds and shifts (C05) -/
theorem remaining_length_shape :
    agreesL Generated.rlThresholds [rlMax1, rlMax2, rlMax3, rlMax4] ∧ agreesL Generated.rlShifts [7, 14, 21] := by decide

/-- serve.go `readPacket`: the length loop stops at four bytes (C06): shift step 7, bound 21.
    Tolerant of a rewrite that bounds the loop differently (`none`): the over-long length inputs of the
    correspondence run decide that case with a concrete failing input. -/
theorem read_length_bound :
    agrees Generated.readLenShiftBound 21 ∧ agrees Generated.readLenShiftStep 7 := by decide

/-- reconnclient.go back-off (C09): doubling, clamped, reset after a successful Connect -/
theorem backoff_shape :
    agrees Generated.reconnWaitFactor 2 ∧
    agrees Generated.reconnWaitBaseDefault 1000000000 ∧ agrees Generated.reconnWaitMaxDefault 10000000000 := by decide

theorem backoff_next_is_double_clamped (max w : Nat) : Backoff.next max w = min (2 * w) max := by
  unfold Backoff.next; split <;> omega

/-- servemux.go / serveasync.go / message.go (C20): handlers get `message.clone()`, ServeAsync
    clones in the calling goroutine, clone allocates a fresh payload and copies every field -/
theorem clone_discipline :
    Generated.muxServesClone = true ∧ Generated.asyncServesCloneInCaller = true ∧ Generated.clonePayloadFresh = true ∧
    (["Dup", "ID", "Payload", "QoS", "Retain", "Topic"].all (Generated.cloneCopiesAllFields.contains ·)) = true := by decide

end Mqtt.FactsTie
