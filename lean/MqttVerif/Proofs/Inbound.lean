/-
  Helper lemmas for property C04 (inbound QoS 0/1/2 flows):
    * the acknowledgement encoders in closed form,
    * `SubBuffer` as a finite map,
    * one `inStep` preserves "the buffer is `Spec.releasable` of the prefix" and emits `Spec.eventAt`,
    * structure of `Spec.timelineFrom`,
    * the byte level: `readPacket` on a framed packet, `parsePublish` on an encoded PUBLISH,
      `serveStep` on the encoding of an inbound packet is `inStep`.
-/
import MqttVerif.Spec.InboundSpec
import MqttVerif.Proofs.CodecRoundtrip
import MqttVerif.Proofs.Parse

namespace Mqtt

open Bits

/-! ### vocabulary -/

/-- well-formedness of what a conforming broker sends (QoS 0 carries no identifier; the parser
    yields id 0) -/
def InPkt.WF : InPkt → Prop
  | .publish m => m.qos ≤ 2 ∧ (m.qos ≠ 0 → m.id < 65536) ∧ (m.qos = 0 → m.id = 0)
  | .pubrel id => id < 65536

instance (p : InPkt) : Decidable p.WF := by
  cases p <;> unfold InPkt.WF <;> infer_instance

/-- the topic survives the library's UTF-8 round trip (true of valid UTF-8 without U+0000;
    proved below for ASCII) -/
def TopicOk (t : Bytes) : Prop :=
  t.length ≤ 65535 ∧ ¬ ((decodeRunes t).any badRune) ∧ encodeRunes (decodeRunes t) = t

instance (t : Bytes) : Decidable (TopicOk t) := by unfold TopicOk; infer_instance

/-- what the byte-level theorems need of a packet beyond `WF`: a PUBLISH has a topic that survives
    the UTF-8 round trip and a body within the protocol maximum -/
def InPkt.Encodable : InPkt → Prop
  | .publish m => TopicOk m.topic ∧ (publishBody m).length ≤ 268435455
  | .pubrel _ => True

instance (p : InPkt) : Decidable p.Encodable := by
  cases p <;> unfold InPkt.Encodable <;> infer_instance

/-! ### acknowledgements in closed form -/

theorem pack_id_ack (t id : Nat) : pack t [packUint16 id] = .ok (Spec.ackBytes t id) := by
  rw [pack_id, shr8]; rfl

theorem packPubAck_eq (id : Nat) : packPubAck id = .ok (Spec.ackBytes 0x40 id) := pack_id_ack _ id
theorem packPubRec_eq (id : Nat) : packPubRec id = .ok (Spec.ackBytes 0x50 id) := pack_id_ack _ id
theorem packPubComp_eq (id : Nat) : packPubComp id = .ok (Spec.ackBytes 0x70 id) := pack_id_ack _ id
theorem packPubRel_eq (id : Nat) : packPubRel id = .ok (Spec.ackBytes 0x62 id) := pack_id_ack _ id

/-! ### `SubBuffer` as a finite map -/

theorem SubBuffer.find_filter_ne (sb : SubBuffer) (id j : Nat) :
    SubBuffer.find (sb.filter (fun e => e.1 ≠ id)) j = if j = id then none else sb.find j := by
  induction sb with
  | nil => simp [SubBuffer.find]
  | cons e sb ih =>
    unfold SubBuffer.find at ih ⊢
    by_cases he : e.1 = id <;> by_cases hj : j = id <;> by_cases hej : e.1 = j <;> simp_all

theorem SubBuffer.find_insert (sb : SubBuffer) (id j : Nat) (m : Message) :
    (sb.insert id m).find j = if j = id then some m else sb.find j := by
  by_cases hj : j = id
  · simp [SubBuffer.insert, SubBuffer.find, hj]
  · have : ¬ id = j := by omega
    have h := SubBuffer.find_filter_ne sb id j
    simp only [hj, if_false] at h
    simp only [SubBuffer.insert, hj, if_false, ← h]
    simp [SubBuffer.find, this]

theorem SubBuffer.find_erase (sb : SubBuffer) (id j : Nat) :
    (sb.erase id).find j = if j = id then none else sb.find j :=
  SubBuffer.find_filter_ne sb id j

theorem SubBuffer.length_insert_le (sb : SubBuffer) (id : Nat) (m : Message) :
    (sb.insert id m).length ≤ sb.length + 1 := by
  simp only [SubBuffer.insert, List.length_cons]
  exact Nat.succ_le_succ (List.length_filter_le _ _)

theorem SubBuffer.length_erase_lt (sb : SubBuffer) (id : Nat) (m : Message)
    (h : sb.find id = some m) : (sb.erase id).length < sb.length := by
  induction sb with
  | nil => simp [SubBuffer.find] at h
  | cons e sb ih =>
    by_cases he : e.1 = id
    · simp only [SubBuffer.erase, List.filter_cons, he, ne_eq, not_true_eq_false, decide_false,
        List.length_cons]
      exact Nat.lt_succ_of_le (List.length_filter_le _ _)
    · have h' : SubBuffer.find sb id = some m := by
        simpa [SubBuffer.find, List.find?_cons, he] using h
      have := ih h'
      simp only [SubBuffer.erase, ne_eq] at this
      simp only [SubBuffer.erase, List.filter_cons, he, ne_eq, not_false_eq_true, decide_true,
        if_true, List.length_cons]
      omega

open Spec

/-! ### one step of the model against the declarative rules -/

/-- the buffer holds exactly what the rules say is releasable after the (reversed) prefix -/
def BufInv (sb : SubBuffer) (rp : List InPkt) : Prop := ∀ id, sb.find id = Spec.releasable id rp

theorem bufInv_nil : BufInv [] [] := fun _ => rfl

theorem inStep_spec (sb : SubBuffer) (rp : List InPkt) (h : Bool) (p : InPkt) (inv : BufInv sb rp) :
    ∃ sb', inStep sb h p = .ok (sb', Spec.eventAt h rp p) ∧ BufInv sb' (p :: rp) := by
  cases p with
  | publish m =>
    by_cases h0 : m.qos = 0
    · refine ⟨sb, by simp [inStep, eventAt, h0], fun id => ?_⟩
      have : ¬ (m.qos ≥ 2 ∧ m.id = id) := by omega
      simp [releasable, this, inv id]
    · by_cases h1 : m.qos = 1
      · refine ⟨sb, by simp [inStep, eventAt, h1, packPubAck_eq, liftPack], fun id => ?_⟩
        have : ¬ (m.qos ≥ 2 ∧ m.id = id) := by omega
        simp [releasable, this, inv id]
      · refine ⟨sb.insert m.id m, by simp [inStep, eventAt, h0, h1, packPubRec_eq, liftPack],
          fun id => ?_⟩
        have h2 : m.qos ≥ 2 := by omega
        rw [SubBuffer.find_insert]
        by_cases hid : id = m.id
        · simp [releasable, h2, hid]
        · have : ¬ m.id = id := fun e => hid e.symm
          simp [releasable, hid, this, inv id]
  | pubrel id =>
    cases hf : releasable id rp with
    | none =>
      have hf' : sb.find id = none := by rw [inv id, hf]
      refine ⟨sb, by simp [inStep, eventAt, hf, hf'], fun j => ?_⟩
      by_cases hj : id = j
      · subst hj; simp [releasable, hf']
      · simp [releasable, hj, inv j]
    | some m =>
      have hf' : sb.find id = some m := by rw [inv id, hf]
      refine ⟨sb.erase id, by simp [inStep, eventAt, hf, hf', packPubComp_eq, liftPack], fun j => ?_⟩
      rw [SubBuffer.find_erase]
      by_cases hj : id = j
      · subst hj; simp [releasable]
      · have : ¬ j = id := fun e => hj e.symm
        simp [releasable, hj, this, inv j]

theorem runIn_spec (h : Bool) (ps : List InPkt) : ∀ (sb : SubBuffer) (rp : List InPkt),
    BufInv sb rp →
    ∃ sb', runIn h sb ps = some (sb', Spec.timelineFrom h rp ps) ∧ BufInv sb' (ps.reverse ++ rp) := by
  induction ps with
  | nil => intro sb rp inv; exact ⟨sb, rfl, by simpa using inv⟩
  | cons p ps ih =>
    intro sb rp inv
    obtain ⟨sb1, hs, inv1⟩ := inStep_spec sb rp h p inv
    obtain ⟨sb2, hr, inv2⟩ := ih sb1 (p :: rp) inv1
    refine ⟨sb2, ?_, by simpa using inv2⟩
    simp [runIn, hs, hr, timelineFrom]

/-! ### structure of the declarative timeline -/

theorem timelineFrom_append (h : Bool) (a b rp : List InPkt) :
    timelineFrom h rp (a ++ b) = timelineFrom h rp a ++ timelineFrom h (a.reverse ++ rp) b := by
  induction a generalizing rp with
  | nil => simp [timelineFrom]
  | cons p a ih => simp [timelineFrom, ih]

theorem timelineFrom_singleton (h : Bool) (rp : List InPkt) (p : InPkt) :
    timelineFrom h rp [p] = eventAt h rp p := by simp [timelineFrom]

/-- what `releasable` returns is a QoS 2 PUBLISH of the prefix carrying the identifier asked for -/
theorem releasable_some {id : Nat} {rp : List InPkt} {m : Message} (h : releasable id rp = some m) :
    2 ≤ m.qos ∧ m.id = id ∧ .publish m ∈ rp := by
  induction rp with
  | nil => simp [releasable] at h
  | cons p rp ih =>
    cases p with
    | pubrel j =>
      by_cases hj : j = id
      · simp [releasable, hj] at h
      · simp only [releasable, hj, if_false] at h
        have := ih h
        exact ⟨this.1, this.2.1, List.mem_cons_of_mem _ this.2.2⟩
    | publish m' =>
      by_cases hc : m'.qos ≥ 2 ∧ m'.id = id
      · simp only [releasable, hc, and_self, if_true, Option.some.injEq] at h
        subst h
        exact ⟨hc.1, hc.2, List.mem_cons_self⟩
      · simp only [releasable, hc, if_false] at h
        have := ih h
        exact ⟨this.1, this.2.1, List.mem_cons_of_mem _ this.2.2⟩

/-- no QoS 2 PUBLISH `id` since the last PUBREL `id`: nothing to release -/
theorem releasable_after_pubrel (id : Nat) (mid rp : List InPkt)
    (hmid : ∀ m, .publish m ∈ mid → 2 ≤ m.qos → m.id ≠ id) :
    releasable id (mid ++ .pubrel id :: rp) = none := by
  induction mid with
  | nil => simp [releasable]
  | cons p mid ih =>
    have ih' := ih (fun m hm => hmid m (List.mem_cons_of_mem _ hm))
    cases p with
    | pubrel j =>
      by_cases hj : j = id
      · simp [releasable, hj]
      · simpa [releasable, hj] using ih'
    | publish m =>
      have : ¬ (m.qos ≥ 2 ∧ m.id = id) := fun hc => hmid m List.mem_cons_self hc.1 hc.2
      simpa [releasable, this] using ih'

/-- the latest QoS 2 PUBLISH `id` is what is released, as long as no PUBREL `id` and no newer
    QoS 2 PUBLISH `id` follows it -/
theorem releasable_latest (id : Nat) (mid rp : List InPkt) (m : Message)
    (hq : 2 ≤ m.qos) (hid : m.id = id)
    (hrel : .pubrel id ∉ mid) (hpub : ∀ m', .publish m' ∈ mid → 2 ≤ m'.qos → m'.id ≠ id) :
    releasable id (mid ++ .publish m :: rp) = some m := by
  induction mid with
  | nil => simp [releasable, hq, hid]
  | cons p mid ih =>
    have ih' := ih (fun hm => hrel (List.mem_cons_of_mem _ hm))
      (fun m hm => hpub m (List.mem_cons_of_mem _ hm))
    cases p with
    | pubrel j =>
      have hj : ¬ j = id := fun e => hrel (by simp [e])
      simpa [releasable, hj] using ih'
    | publish m' =>
      have : ¬ (m'.qos ≥ 2 ∧ m'.id = id) := fun hc => hpub m' List.mem_cons_self hc.1 hc.2
      simpa [releasable, this] using ih'

/-! ### observers on the timeline -/

/-- hand-overs of QoS 0/1 messages -/
def Out.ho01 : Out → Option Message
  | .handOver m => if m.qos ≤ 1 then some m else none
  | _ => none

/-- QoS 0/1 PUBLISH packets -/
def InPkt.pub01 : InPkt → Option Message
  | .publish m => if m.qos ≤ 1 then some m else none
  | _ => none

/-- hand-over of a QoS 2 message -/
def Out.isHo2 : Out → Bool
  | .handOver m => decide (2 ≤ m.qos)
  | _ => false

/-- hand-over of a QoS 2 message with identifier `id` -/
def Out.isHo2Id (id : Nat) : Out → Bool
  | .handOver m => decide (2 ≤ m.qos ∧ m.id = id)
  | _ => false

def Out.isHandOver : Out → Bool
  | .handOver _ => true
  | _ => false

def Out.isWrite : Out → Bool
  | .write _ => true
  | _ => false

@[simp] theorem Out.isHo2_write (b : Bytes) : Out.isHo2 (.write b) = false := rfl
@[simp] theorem Out.isHo2_handOver (m : Message) : Out.isHo2 (.handOver m) = decide (2 ≤ m.qos) := rfl
@[simp] theorem Out.isHo2Id_write (id : Nat) (b : Bytes) : Out.isHo2Id id (.write b) = false := rfl
@[simp] theorem Out.isHo2Id_handOver (id : Nat) (m : Message) :
    Out.isHo2Id id (.handOver m) = decide (2 ≤ m.qos ∧ m.id = id) := rfl
@[simp] theorem Out.isHandOver_write (b : Bytes) : Out.isHandOver (.write b) = false := rfl
@[simp] theorem Out.isHandOver_handOver (m : Message) : Out.isHandOver (.handOver m) = true := rfl
@[simp] theorem Out.isWrite_write (b : Bytes) : Out.isWrite (.write b) = true := rfl
@[simp] theorem Out.isWrite_handOver (m : Message) : Out.isWrite (.handOver m) = false := rfl

def InPkt.isPubrel : InPkt → Bool
  | .pubrel _ => true
  | _ => false

def InPkt.isPub2 : InPkt → Bool
  | .publish m => decide (2 ≤ m.qos)
  | _ => false

theorem eventAt_ho01 (rp : List InPkt) (p : InPkt) :
    (eventAt true rp p).filterMap Out.ho01 = (p.pub01).toList := by
  cases p with
  | publish m =>
    by_cases h0 : m.qos = 0
    · simp [eventAt, h0, Out.ho01, InPkt.pub01]
    · by_cases h1 : m.qos = 1
      · simp [eventAt, h1, Out.ho01, InPkt.pub01]
      · have : ¬ m.qos ≤ 1 := by omega
        simp [eventAt, h0, h1, Out.ho01, InPkt.pub01, this]
  | pubrel id =>
    cases hf : releasable id rp with
    | none => simp [eventAt, hf, InPkt.pub01]
    | some m =>
      have : ¬ m.qos ≤ 1 := by have := (releasable_some hf).1; omega
      simp [eventAt, hf, Out.ho01, InPkt.pub01, this]

theorem timelineFrom_ho01 (ps rp : List InPkt) :
    (timelineFrom true rp ps).filterMap Out.ho01 = ps.filterMap InPkt.pub01 := by
  induction ps generalizing rp with
  | nil => rfl
  | cons p ps ih =>
    simp only [timelineFrom, List.filterMap_append, eventAt_ho01, ih, List.filterMap_cons]
    cases p.pub01 <;> simp

theorem eventAt_false (rp : List InPkt) (p : InPkt) :
    eventAt false rp p = (eventAt true rp p).filter Out.isWrite := by
  cases p with
  | publish m =>
    by_cases h0 : m.qos = 0
    · simp [eventAt, h0]
    · by_cases h1 : m.qos = 1
      · simp [eventAt, h1, List.filter_cons]
      · simp [eventAt, h0, h1, List.filter_cons]
  | pubrel id =>
    cases hf : releasable id rp with
    | none => simp [eventAt, hf]
    | some m => simp [eventAt, hf, List.filter_cons]

theorem timelineFrom_false (ps rp : List InPkt) :
    timelineFrom false rp ps = (timelineFrom true rp ps).filter Out.isWrite := by
  induction ps generalizing rp with
  | nil => rfl
  | cons p ps ih => simp [timelineFrom, eventAt_false, ih]

/-- at a PUBLISH position nothing of QoS 2 is handed over; at a PUBREL position at most one -/
theorem eventAt_countHo2 (h : Bool) (rp : List InPkt) (p : InPkt) :
    (eventAt h rp p).countP Out.isHo2 ≤ if p.isPubrel then 1 else 0 := by
  cases p with
  | publish m =>
    by_cases h0 : m.qos = 0
    · cases h <;> simp [eventAt, h0, InPkt.isPubrel]
    · by_cases h1 : m.qos = 1
      · cases h <;> simp [eventAt, h1, InPkt.isPubrel]
      · simp [eventAt, h0, h1, InPkt.isPubrel]
  | pubrel id =>
    cases hf : releasable id rp with
    | none => simp [eventAt, hf]
    | some m =>
      cases h <;> simp [eventAt, hf, InPkt.isPubrel, List.countP_cons]
      split <;> omega

theorem timelineFrom_countHo2_le_pubrel (h : Bool) (ps rp : List InPkt) :
    (timelineFrom h rp ps).countP Out.isHo2 ≤ ps.countP InPkt.isPubrel := by
  induction ps generalizing rp with
  | nil => simp [timelineFrom]
  | cons p ps ih =>
    have h1 := eventAt_countHo2 h rp p
    have h2 := ih (p :: rp)
    simp only [timelineFrom, List.countP_append, List.countP_cons]
    omega

/-- per identifier: hand-overs of QoS 2 messages `id` only happen at PUBREL `id` positions -/
theorem eventAt_countHo2Id (h : Bool) (id : Nat) (rp : List InPkt) (p : InPkt) :
    (eventAt h rp p).countP (Out.isHo2Id id) ≤ if p = .pubrel id then 1 else 0 := by
  cases p with
  | publish m =>
    by_cases h0 : m.qos = 0
    · cases h <;> simp [eventAt, h0]
    · by_cases h1 : m.qos = 1
      · cases h <;> simp [eventAt, h1]
      · simp [eventAt, h0, h1]
  | pubrel j =>
    cases hf : releasable j rp with
    | none => simp [eventAt, hf]
    | some m =>
      have hm := (releasable_some hf).2.1
      by_cases hj : j = id
      · subst hj
        cases h <;> simp [eventAt, hf, List.countP_cons]
        split <;> omega
      · have : ¬ m.id = id := by omega
        cases h <;> simp [eventAt, hf, hj, this]

theorem timelineFrom_countHo2Id_le (h : Bool) (id : Nat) (ps rp : List InPkt) :
    (timelineFrom h rp ps).countP (Out.isHo2Id id) ≤ ps.count (.pubrel id) := by
  induction ps generalizing rp with
  | nil => simp [timelineFrom]
  | cons p ps ih =>
    have h1 := eventAt_countHo2Id h id rp p
    have h2 := ih (p :: rp)
    simp only [timelineFrom, List.countP_append, List.count_cons]
    by_cases hp : p = .pubrel id
    · subst hp; simp at h1 ⊢; omega
    · rw [if_neg hp] at h1; simp [hp]; omega

/-- the model's buffer bounds the QoS 2 hand-overs by the QoS 2 PUBLISH packets: every hand-over at
    a PUBREL removes an entry, only a QoS 2 PUBLISH adds one -/
theorem inStep_countHo2 (h : Bool) (sb sb' : SubBuffer) (p : InPkt) (outs : List Out)
    (hs : inStep sb h p = .ok (sb', outs)) :
    outs.countP Out.isHo2 + sb'.length ≤ sb.length + if p.isPub2 then 1 else 0 := by
  cases p with
  | publish m =>
    by_cases h0 : m.qos = 0
    · simp only [inStep, h0, if_true, Res.ok.injEq, Prod.mk.injEq] at hs
      obtain ⟨rfl, rfl⟩ := hs
      cases h <;> simp [h0, InPkt.isPub2]
    · by_cases h1 : m.qos = 1
      · simp [inStep, h1, packPubAck_eq, liftPack] at hs
        obtain ⟨rfl, rfl⟩ := hs
        cases h <;> simp [h1, InPkt.isPub2]
      · simp [inStep, h0, h1, packPubRec_eq, liftPack] at hs
        obtain ⟨rfl, rfl⟩ := hs
        have h2 : 2 ≤ m.qos := by omega
        have := SubBuffer.length_insert_le sb m.id m
        simp [InPkt.isPub2, h2]
        omega
  | pubrel id =>
    cases hf : sb.find id with
    | none =>
      simp [inStep, hf] at hs
      obtain ⟨rfl, rfl⟩ := hs
      simp
    | some m =>
      simp [inStep, hf, packPubComp_eq, liftPack] at hs
      obtain ⟨rfl, rfl⟩ := hs
      have := SubBuffer.length_erase_lt sb id m hf
      cases h <;> simp [List.countP_cons, InPkt.isPub2]
      · omega
      · split <;> omega

theorem runIn_countHo2 (h : Bool) (ps : List InPkt) : ∀ (sb sb' : SubBuffer) (outs : List Out),
    runIn h sb ps = some (sb', outs) →
    outs.countP Out.isHo2 + sb'.length ≤ sb.length + ps.countP InPkt.isPub2 := by
  induction ps with
  | nil =>
    intro sb sb' outs hr
    simp only [runIn, Option.some.injEq, Prod.mk.injEq] at hr
    obtain ⟨rfl, rfl⟩ := hr
    simp
  | cons p ps ih =>
    intro sb sb' outs hr
    cases hs : inStep sb h p with
    | ok r =>
      obtain ⟨sb1, o1⟩ := r
      simp only [runIn, hs] at hr
      cases hr2 : runIn h sb1 ps with
      | none => simp [hr2] at hr
      | some r2 =>
        obtain ⟨sb2, o2⟩ := r2
        simp only [hr2, Option.map_some, Option.some.injEq, Prod.mk.injEq] at hr
        obtain ⟨rfl, rfl⟩ := hr
        have a := inStep_countHo2 h sb sb1 p o1 hs
        have b := ih sb1 sb2 o2 hr2
        simp only [List.countP_append, List.countP_cons]
        omega
    | err e => simp [runIn, hs] at hr
    | panic => simp [runIn, hs] at hr

theorem timeline_countHo2_le_pub2 (h : Bool) (ps : List InPkt) :
    (timeline h ps).countP Out.isHo2 ≤ ps.countP InPkt.isPub2 := by
  obtain ⟨sb', hr, _⟩ := runIn_spec h ps [] [] bufInv_nil
  have := runIn_countHo2 h ps [] sb' _ hr
  simp only [List.length_nil, Nat.zero_add] at this
  unfold timeline
  omega

/-! ### ASCII topics survive the UTF-8 round trip -/

theorem decodeRunesFuel_ascii (fuel : Nat) : ∀ (t : Bytes), t.length ≤ fuel → (∀ b ∈ t, b < 128) →
    decodeRunesFuel fuel t = t := by
  induction fuel with
  | zero =>
    intro t hl _
    have : t = [] := List.eq_nil_of_length_eq_zero (by omega)
    subst this; rfl
  | succ fuel ih =>
    intro t hl hb
    match t, hl, hb with
    | [], _, _ => rfl
    | p0 :: rest, hl, hb =>
      have h0 : p0 < 0x80 := hb p0 List.mem_cons_self
      have hr := ih rest (by simp only [List.length_cons] at hl; omega)
        (fun b hm => hb b (List.mem_cons_of_mem _ hm))
      simp [decodeRunesFuel, decodeRune, h0, hr]

theorem encodeRunes_ascii (t : Bytes) (hb : ∀ b ∈ t, b < 128) : encodeRunes t = t := by
  induction t with
  | nil => rfl
  | cons b t ih =>
    have h0 : b ≤ 0x7F := by have := hb b List.mem_cons_self; omega
    have := ih (fun b hm => hb b (List.mem_cons_of_mem _ hm))
    simp only [encodeRunes] at this
    simp [encodeRunes, encodeRune, h0, this]

theorem topicOk_ascii (t : Bytes) (hl : t.length ≤ 65535) (h : ∀ b ∈ t, 0 < b ∧ b < 128) :
    TopicOk t := by
  have hd : decodeRunes t = t := decodeRunesFuel_ascii _ t (Nat.le_refl _) (fun b hb => (h b hb).2)
  refine ⟨hl, ?_, ?_⟩
  · rw [hd]
    simp only [List.any_eq_true, not_exists, not_and, Bool.not_eq_true]
    intro b hb
    have := h b hb
    have h1 : ¬ b = 0 := by omega
    have h2 : ¬ 0xD800 ≤ b := by omega
    simp [badRune, h1, h2]
  · rw [hd]; exact encodeRunes_ascii t (fun b hb => (h b hb).2)

/-! ### the length loop of `readPacket` on what `remainingLength` emits -/

theorem readLen_stop (s acc b : Nat) (rest : Bytes) (hb : b < 128) :
    readLen s acc b rest = .ok (acc ||| (b <<< s), rest) := by
  have h1 : b &&& 0x80 = 0 := (and80_lt b (by omega)).2 hb
  have h2 : b &&& 0x7F = b := by rw [show (0x7F : Nat) = 127 from rfl, and7f_lt b (by omega)]; omega
  unfold readLen
  simp [h1, h2]

theorem readLen_cont (s acc b c : Nat) (rest : Bytes) (hb : 128 ≤ b) (hb' : b < 256) (hs : s < 21) :
    readLen s acc b (c :: rest) = readLen (s + 7) (acc ||| ((b % 128) <<< s)) c rest := by
  have h1 : ¬ (b &&& 0x80 = 0) := fun h => by have := (and80_lt b hb').1 h; omega
  have h2 : b &&& 0x7F = b % 128 := and7f_lt b hb'
  have h3 : ¬ s ≥ 21 := by omega
  rw [readLen]
  simp [h1, h2, h3]

theorem or_shl (a x s : Nat) (h : a < 2 ^ s) : a ||| (x <<< s) = a + x * 2 ^ s := by
  rw [Nat.or_comm, ← Nat.shiftLeft_add_eq_or_of_lt h, Nat.shiftLeft_eq]; omega

theorem readLen_remainingLength (n : Nat) (hn : n ≤ 268435455) :
    ∃ b1 rl, remainingLength n = .ok (b1 :: rl) ∧
      ∀ tail, readLen 0 0 b1 (rl ++ tail) = .ok (n, tail) := by
  rw [remainingLength_eq n hn]
  by_cases h1 : n ≤ 127
  · refine ⟨n, [], by simp [h1], fun tail => ?_⟩
    rw [readLen_stop _ _ _ _ (by omega)]; simp
  · by_cases h2 : n ≤ 16383
    · refine ⟨n % 128 + 128, [n / 128], by simp [h1, h2], fun tail => ?_⟩
      simp only [List.cons_append, List.nil_append]
      rw [readLen_cont _ _ _ _ _ (by omega) (by omega) (by omega), readLen_stop _ _ _ _ (by omega)]
      have e1 : (n % 128 + 128) % 128 = n % 128 := by omega
      rw [e1, or_shl 0 _ 0 (by decide), or_shl _ _ 7 (by omega)]
      simp only [Res.ok.injEq, Prod.mk.injEq, and_true]; omega
    · by_cases h3 : n ≤ 2097151
      · refine ⟨n % 128 + 128, [n / 128 % 128 + 128, n / 16384], by simp [h1, h2, h3], fun tail => ?_⟩
        simp only [List.cons_append, List.nil_append]
        rw [readLen_cont _ _ _ _ _ (by omega) (by omega) (by omega),
          readLen_cont _ _ _ _ _ (by omega) (by omega) (by omega), readLen_stop _ _ _ _ (by omega)]
        have e1 : (n % 128 + 128) % 128 = n % 128 := by omega
        have e2 : (n / 128 % 128 + 128) % 128 = n / 128 % 128 := by omega
        rw [e1, e2, or_shl 0 _ 0 (by decide), or_shl _ _ 7 (by omega), or_shl _ _ 14 (by omega)]
        simp only [Res.ok.injEq, Prod.mk.injEq, and_true]; omega
      · refine ⟨n % 128 + 128, [n / 128 % 128 + 128, n / 16384 % 128 + 128, n / 2097152],
          by simp [h1, h2, h3], fun tail => ?_⟩
        simp only [List.cons_append, List.nil_append]
        rw [readLen_cont _ _ _ _ _ (by omega) (by omega) (by omega),
          readLen_cont _ _ _ _ _ (by omega) (by omega) (by omega),
          readLen_cont _ _ _ _ _ (by omega) (by omega) (by omega), readLen_stop _ _ _ _ (by omega)]
        have e1 : (n % 128 + 128) % 128 = n % 128 := by omega
        have e2 : (n / 128 % 128 + 128) % 128 = n / 128 % 128 := by omega
        have e3 : (n / 16384 % 128 + 128) % 128 = n / 16384 % 128 := by omega
        rw [e1, e2, e3, or_shl 0 _ 0 (by decide), or_shl _ _ 7 (by omega), or_shl _ _ 14 (by omega),
          or_shl _ _ 21 (by omega)]
        simp only [Res.ok.injEq, Prod.mk.injEq, and_true]; omega

/-- `readPacket` on one framed packet followed by anything: the packet, and the rest untouched -/
theorem readPacket_frame (h : Nat) (cs : List Bytes) (hl : cs.flatten.length ≤ 268435455)
    : ∃ bs, pack h cs = .ok bs ∧ ∀ rest, (readPacket (bs ++ rest)).res =
      .ok ({ ptype := h &&& 0xF0, flag := h &&& 0x0F, contents := cs.flatten }, rest) := by
  obtain ⟨b1, rl, hrl, hread⟩ := readLen_remainingLength cs.flatten.length hl
  refine ⟨_, pack_of_rl h cs _ hrl, fun rest => ?_⟩
  have e : h :: (b1 :: rl ++ cs.flatten) ++ rest = h :: b1 :: (rl ++ (cs.flatten ++ rest)) := by simp
  have h47 : ¬ cs.flatten.length ≥ 2 ^ 47 := by
    have : (268435455 : Nat) < 2 ^ 47 := by decide
    omega
  rw [e]
  simp only [readPacket, hread, h47, if_false]
  by_cases h0 : cs.flatten.length = 0
  · have : cs.flatten = [] := List.eq_nil_of_length_eq_zero h0
    simp [this]
  · have h1 : ¬ (cs.flatten ++ rest).length = 0 := by simp only [List.length_append]; omega
    have h2 : ¬ (cs.flatten ++ rest).length < cs.flatten.length := by
      simp only [List.length_append]; omega
    simp only [h0, h1, h2, if_false, List.take_left, List.drop_left]

/-! ### `parsePublish` on an encoded PUBLISH -/

theorem be16_u16 (v : Nat) (h : v < 65536) : ((v / 256 % 256) <<< 8) ||| (v % 256) = v := by
  rw [be16 _ _ (Nat.mod_lt _ (by decide))]; omega

theorem unpackString_lp (t tail : Bytes) (ht : TopicOk t) :
    unpackString (u16be t.length ++ (t ++ tail)) = .ok (t.length + 2, t) := by
  obtain ⟨hl, hbad, henc⟩ := ht
  rw [u16be_cons, unpackString_cons, be16_u16 _ (by omega)]
  have h1 : ¬ t.length > (t ++ tail).length := by simp only [List.length_append]; omega
  rw [if_neg h1, List.take_left, henc]
  simp only [Bool.not_eq_true] at hbad
  simp [hbad]

/-- the part of `parsePublish` after the flag bits have been read -/
def parsePublishBody (dup retain : Bool) (qos : Nat) (contents : Bytes) : Res Message :=
  match unpackString contents with
  | .ok (n, topic) =>
    if qos ≠ 0 then
      if contents.length - n < 2 then .err .invalidPacketLength
      else if n > contents.length then .panic
      else match unpackUint16 (contents.drop n) with
        | .ok id =>
          if n + 2 > contents.length then .panic
          else .ok { topic, id, qos, retain, dup, payload := contents.drop (n + 2) }
        | .err e => .err e
        | .panic => .panic
    else
      if n > contents.length then .panic
      else .ok { topic, id := 0, qos, retain, dup, payload := contents.drop n }
  | .err e => .err e
  | .panic => .panic

theorem parsePublish_of_flag (f qos : Nat) (c : Bytes)
    (hq : (qos = 0 ∧ f &&& 6 = 0) ∨ (qos = 1 ∧ f &&& 6 = 2) ∨ (qos = 2 ∧ f &&& 6 = 4)) :
    parsePublish f c = parsePublishBody (decide (f &&& 8 ≠ 0)) (decide (f &&& 1 ≠ 0)) qos c := by
  rcases hq with ⟨rfl, h⟩ | ⟨rfl, h⟩ | ⟨rfl, h⟩ <;>
    simp only [parsePublish, parsePublishBody, publishFlagQoSMask, publishFlagQoS1, publishFlagQoS2,
      publishFlagDup, publishFlagRetain, h] <;> rfl

theorem publishHeaderByte_flags (m : Message) (hq : m.qos ≤ 2) :
    ∃ h, publishHeaderByte m = .ok h ∧ h &&& 0xF0 = packetPublish ∧
      ((m.qos = 0 ∧ (h &&& 0x0F) &&& 6 = 0) ∨ (m.qos = 1 ∧ (h &&& 0x0F) &&& 6 = 2) ∨
        (m.qos = 2 ∧ (h &&& 0x0F) &&& 6 = 4)) ∧
      decide ((h &&& 0x0F) &&& 8 ≠ 0) = m.dup ∧ decide ((h &&& 0x0F) &&& 1 ≠ 0) = m.retain := by
  obtain ⟨topic, id, qos, retain, dup, payload⟩ := m
  simp only at hq
  have : qos = 0 ∨ qos = 1 ∨ qos = 2 := by omega
  rcases this with rfl | rfl | rfl <;> cases retain <;> cases dup <;>
    exact ⟨_, rfl, by
      simp [packetPublish, publishFlagRetain, publishFlagQoS1, publishFlagQoS2, publishFlagDup]⟩

theorem parsePublishBody_publishBody (m : Message) (ht : TopicOk m.topic)
    (hid : m.qos ≠ 0 → m.id < 65536) (hid0 : m.qos = 0 → m.id = 0) :
    parsePublishBody m.dup m.retain m.qos (publishBody m) = .ok m := by
  obtain ⟨topic, id, qos, retain, dup, payload⟩ := m
  simp only at ht hid hid0
  unfold parsePublishBody publishBody
  simp only [unpackString_lp _ _ ht]
  by_cases h0 : qos = 0
  · subst h0
    have := hid0 rfl
    subst this
    have hlen : ¬ topic.length + 2 > (u16be topic.length ++ (topic ++ ([] ++ payload))).length := by
      simp; omega
    have hdrop : (u16be topic.length ++ (topic ++ ([] ++ payload))).drop (topic.length + 2) = payload := by
      rw [Nat.add_comm, ← List.drop_drop, u16be_cons]
      simp
    simp only [if_true, ne_eq, not_true_eq_false, if_false, hlen, hdrop]
  · have hid' := hid h0
    have hlen1 : ¬ (u16be topic.length ++ (topic ++ (u16be id ++ payload))).length - (topic.length + 2) < 2 := by
      simp; omega
    have hlen2 : ¬ topic.length + 2 > (u16be topic.length ++ (topic ++ (u16be id ++ payload))).length := by
      simp; omega
    have hlen3 : ¬ topic.length + 2 + 2 > (u16be topic.length ++ (topic ++ (u16be id ++ payload))).length := by
      simp; omega
    have hdrop : (u16be topic.length ++ (topic ++ (u16be id ++ payload))).drop (topic.length + 2) =
        u16be id ++ payload := by
      rw [Nat.add_comm, ← List.drop_drop, u16be_cons]
      simp
    have hdrop2 : (u16be topic.length ++ (topic ++ (u16be id ++ payload))).drop (topic.length + 2 + 2) =
        payload := by
      rw [← List.drop_drop, hdrop, u16be_cons]
      simp
    simp only [h0, if_false, ne_eq, not_false_eq_true, if_true, hlen1, hlen2, hlen3, hdrop, hdrop2]
    simp only [u16be_cons, unpackUint16, be16_u16 _ hid']

/-! ### the byte-level reader loop on encoded packets -/

theorem publish_roundtrip_frame (m : Message) (wf : (InPkt.publish m).WF) (ht : TopicOk m.topic)
    (hb : (publishBody m).length ≤ 268435455) :
    ∃ bs, packPublish m = .ok bs ∧ ∀ rest, ∃ p, (readPacket (bs ++ rest)).res = .ok (p, rest) ∧
      p.ptype = packetPublish ∧ parsePublish p.flag p.contents = .ok m := by
  obtain ⟨hq, hid, hid0⟩ := wf
  obtain ⟨h, hh, hty, hqf, hdup, hret⟩ := publishHeaderByte_flags m hq
  have hfl := publish_flatten m
  obtain ⟨bs, hpack, hread⟩ := readPacket_frame h
    [u16be m.topic.length ++ (m.topic ++ (if m.qos = 0 then [] else u16be m.id)), m.payload]
    (by rw [hfl]; exact hb)
  refine ⟨bs, by rw [packPublish_eq m h hh ht.1, hpack], fun rest => ⟨_, hread rest, hty, ?_⟩⟩
  simp only [hfl]
  rw [parsePublish_of_flag _ m.qos _ hqf, hdup, hret]
  exact parsePublishBody_publishBody m ht hid hid0

theorem serveStep_publish (sb : SubBuffer) (handler : Bool) (p : Packet) (m : Message)
    (hty : p.ptype = packetPublish) (hp : parsePublish p.flag p.contents = .ok m) :
    serveStep sb handler p = inStep sb handler (.publish m) := by
  simp [serveStep, inStep, hty, hp, packetPublish, packetConnAck]

theorem serveStep_pubrel (sb : SubBuffer) (handler : Bool) (p : Packet) (id : Nat)
    (hty : p.ptype = packetPubRel) (hp : parseIdOnly 2 p.flag p.contents = .ok id) :
    serveStep sb handler p = inStep sb handler (.pubrel id) := by
  simp only [serveStep, inStep, hty, hp, packetPubRel, packetPublish, packetConnAck, packetPubAck,
    packetPubRec]
  rfl

theorem pubrel_roundtrip_frame (id : Nat) (hid : id < 65536) :
    ∃ bs, packPubRel id = .ok bs ∧ ∀ rest, ∃ p, (readPacket (bs ++ rest)).res = .ok (p, rest) ∧
      p.ptype = packetPubRel ∧ parseIdOnly 2 p.flag p.contents = .ok id := by
  obtain ⟨bs, hpack, hread⟩ := readPacket_frame (packetPubRel ||| packetFromClient) [packUint16 id]
    (by simp [packUint16_eq])
  refine ⟨bs, hpack, fun rest => ⟨_, hread rest, rfl, ?_⟩⟩
  have : (packetPubRel ||| packetFromClient) &&& 0x0F = 2 := by decide
  simp only [this, parseIdOnly, packUint16_eq, List.flatten_cons, List.flatten_nil, List.append_nil,
    u16be_length, ne_eq, not_true_eq_false, if_false, Nat.lt_irrefl]
  simp only [u16be, unpackUint16, be16_u16 _ hid]

theorem serveStep_encoded (sb : SubBuffer) (handler : Bool) (pk : InPkt) (wf : pk.WF)
    (he : pk.Encodable) :
    ∃ bs, encodeIn pk = .ok bs ∧ ∀ rest, ∃ p, (readPacket (bs ++ rest)).res = .ok (p, rest) ∧
      serveStep sb handler p = inStep sb handler pk := by
  cases pk with
  | publish m =>
    obtain ⟨bs, hpack, hread⟩ := publish_roundtrip_frame m wf he.1 he.2
    refine ⟨bs, hpack, fun rest => ?_⟩
    obtain ⟨p, hr, hty, hp⟩ := hread rest
    exact ⟨p, hr, serveStep_publish sb handler p m hty hp⟩
  | pubrel id =>
    obtain ⟨bs, hpack, hread⟩ := pubrel_roundtrip_frame id wf
    refine ⟨bs, hpack, fun rest => ?_⟩
    obtain ⟨p, hr, hty, hp⟩ := hread rest
    exact ⟨p, hr, serveStep_pubrel sb handler p id hty hp⟩

/-- the wire encoding of a whole received sequence -/
def encodeStream : List InPkt → Res Bytes
  | [] => .ok []
  | p :: ps =>
    match encodeIn p, encodeStream ps with
    | .ok b, .ok bs => .ok (b ++ bs)
    | .ok _, r => r
    | .err e, _ => .err e
    | .panic, _ => .panic

theorem serveStream_spec (handler : Bool) (ps : List InPkt) (wf : ∀ p ∈ ps, p.WF)
    (he : ∀ p ∈ ps, p.Encodable) : ∀ (sb : SubBuffer) (rp : List InPkt), BufInv sb rp →
    ∃ bs, encodeStream ps = .ok bs ∧
      (serveStream sb handler bs).outs = Spec.timelineFrom handler rp ps ∧
      (serveStream sb handler bs).outcome = .err .eof ∧
      (serveStream sb handler bs).processed = ps.length := by
  induction ps with
  | nil =>
    intro sb rp _
    refine ⟨[], rfl, ?_⟩
    rw [serveStream_read_err (sb := sb) (h := handler) (bs := []) (e := .eof) rfl]
    exact ⟨rfl, rfl, rfl⟩
  | cons p ps ih =>
    intro sb rp inv
    obtain ⟨sb1, hs, inv1⟩ := inStep_spec sb rp handler p inv
    obtain ⟨b, henc, hread⟩ := serveStep_encoded sb handler p (wf p List.mem_cons_self)
      (he p List.mem_cons_self)
    obtain ⟨bs, hencs, houts, hout, hproc⟩ := ih (fun q hq => wf q (List.mem_cons_of_mem _ hq))
      (fun q hq => he q (List.mem_cons_of_mem _ hq)) sb1 (p :: rp) inv1
    obtain ⟨pkt, hr, hstep⟩ := hread bs
    refine ⟨b ++ bs, by simp [encodeStream, henc, hencs], ?_⟩
    rw [serveStream_ok hr (hstep.trans hs)]
    simp [timelineFrom, houts, hout, hproc]

end Mqtt
