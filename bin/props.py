# Property table for bin/check: which correspondence streams (harness engines) and which Lean
# modules decide each property. engines: (name, n_quick, n_thorough)
PROPS = {
    'C05': {
        'engines': [('rl', 400, 20000), ('pub', 300, 5000), ('conn', 150, 3000), ('sub', 100, 2000), ('unsub', 100, 2000),
                    ('ack', 80, 800), ('empty', 1, 1), ('val', 80, 800), ('apipub', 200, 4000), ('apiconn', 100, 2000),
                    ('inpub', 200, 4000)],
        'rule': 'boundary tables (every remaining-length threshold ±2, all QoS×retain×dup, all 2^6 CONNECT option '
                'combinations) then seeded random cases; a case is non-trivial when the implementation produced a '
                'packet or a classified rejection; distinct = distinct case line',
        'assumptions': ['application-side string rules (no wildcard / U+0000 in topic names, valid UTF-8) are not enforced by the library and are constraints of the generator',
                        'payloads above 64 bytes are compared by length, checksum and 32-byte head'],
    },
}
