# Property table for bin/check: which correspondence streams (harness engines) and which Lean
# modules decide each property. engines: (name, n_quick, n_thorough)
PROPS = {
    'C05': {
        'lean_modules': ['C05', 'C05t', 'C05i', 'C05u'],
        'engines': [('rl', 400, 20000), ('pub', 300, 5000), ('conn', 150, 3000), ('sub', 100, 2000), ('unsub', 100, 2000),
                    ('ack', 80, 800), ('empty', 1, 1), ('val', 80, 800), ('apipub', 200, 4000), ('apiconn', 100, 2000),
                    ('inpub', 200, 4000), ('inflow', 150, 1500), ('retry', 100, 800)],
        'rule': 'boundary tables (every remaining-length threshold ±2, all QoS×retain×dup, all 2^6 CONNECT option '
                'combinations) then seeded random cases; a case is non-trivial when the implementation produced a '
                'packet or a classified rejection; distinct = distinct case line',
        'assumptions': ['application-side string rules (no wildcard / U+0000 in topic names, valid UTF-8) are not enforced by the library and are constraints of the generator',
                        'payloads above 64 bytes are compared by length, checksum and 32-byte head'],
    },
    'C06': {
        'lean_modules': ['C06', 'C06t'],
        'engines': [('rp', 600, 6000), ('parse', 600, 6000), ('ustr', 200, 3000), ('serve', 300, 4000), ('bc', 150, 1500), ('servewf', 1, 1)],
        'rule': 'structured streams (valid prefix, one mutation from each malformed class of the property, trailing garbage), '
                'boundary byte alphabet {00,01,02,7f,80,ff} (exhaustively up to 6 length bytes / 4 body bytes in the thorough tier) '
                'and random soup; non-trivial = reached a parser or the length loop; distinct = distinct case line',
        'assumptions': ['the end-to-end stream runs feed the bytes after an accepting CONNACK and end the stream with EOF',
                        'ill-formed UTF-8 in a topic is not in the property list: Go replaces it by U+FFFD (reported as a note in DESIGN.md, D16)'],
    },
    'C14': {
        'engines': [('filter', 300, 3000), ('match', 600, 6000), ('matchsweep', 1, 1), ('mux', 200, 2000), ('muxseq', 200, 2000), ('c20', 100, 1000)],
        'rule': 'all filter strings over {a,b,+,#,/} up to length 4 (6 thorough); all filter x topic pairs up to length 3 (4 thorough) against '
                'the Lean model; exhaustive Go-side sweep of all pairs up to filter length 5 / topic length 4 (6/6 thorough) against the §4.7 '
                'oracle; random long strings with multi-byte runes; non-trivial = valid filter',
        'assumptions': ['topic names starting with $ are outside the property'],
    },
    'C15': {
        'lean_modules': ['C15', 'C15p'],
        'engines': [('ids', 200, 2000), ('idconc', 1, 1), ('initid', 2000, 200000), ('apipub', 150, 3000), ('rhandle', 1, 1), ('idreuse', 1, 1), ('retry', 150, 1000), ('idseq', 20, 300)],
        'rule': 'id sequences from counter values around every wrap point (uint16 and uint32) compared with the model; full 65535-call '
                'windows checked for duplicates; concurrent callers (2..64 goroutines) checked for duplicates and zero',
        'partial': 'the statement "unique among outstanding requests" is proved for requests issued within the last 65535 issues '
                   '(window_nodup); beyond that the code reuses ids (known finding reuse-after-65535-later-issues, window_tight)',
        'assumptions': ['atomic.AddUint32 linearises concurrent increments (Go memory model, not formalised)'],
    },
    'C08': {
        'lean_modules': ['C08a', 'C08b'],
        'engines': [('subs', 400, 4000), ('retry', 300, 2500)],
        'rule': 'Subscribe/Unsubscribe call histories over 3 filters x 3 QoS with repeated filters, changed QoS, multi-filter calls, '
                'duplicates inside one call and absent filters (all histories of <= 4 calls over a 10-call alphabet in the thorough tier)',
        'assumptions': [],
    },
    'C04': {
        'lean_modules': ['C04', 'C11t'],
        'engines': [('inflow', 300, 3000), ('serve', 150, 1500), ('retry', 100, 600), ('hcall', 1, 1), ('bc', 150, 1500)],
        'rule': 'sequences of length 0-40 over PUBLISH qos0/1/2 (ids 1,2,3,65535, dup bits) and PUBREL (known and unknown ids), '
                'with and without handler, fed to a connected BaseClient; all sequences up to length 5 over a 9-symbol alphabet in the '
                'thorough tier; non-trivial = stream of well-formed PUBLISH/PUBREL packets (the C04 timeline oracle applied)',
        'assumptions': ['the handler logs on exit after yielding, so an acknowledgement written before the handler returned would be seen out of order',
                        'transport writes succeed (a failing ack write ends the connection; covered by C11/C16)'],
    },
    'C19': {
        'engines': [('err', 400, 4000), ('rhandle', 1, 1), ('retry', 120, 1000)],
        'rule': 'error chains built with the real wrappers (wrapError, wrapErrorWithRetry via hooks; fmt %w; ConnectionError; '
                'RequestTimeoutError from requestContext; a struct with an Err field) over 16 sentinels; targets = every node, every '
                'sentinel, fresh errors, io.EOF; all chains up to depth 4 in the thorough tier, random depth <= 12 otherwise',
        'assumptions': ['error values are comparable (pointers), as all library and standard-library errors are',
                        'the retry-handle half of the property (Retry re-issues the same request) is decided with C12'],
    },
    'C20': {
        'lean_modules': ['C20', 'C20t'],
        'engines': [('c20', 300, 3000)],
        'rule': 'ServeMux / ServeAsync with 1-6 matching handlers that run scripted mutations (set topic, overwrite payload bytes in '
                'place, zero, append into spare capacity, reslice, flip flags/id) and snapshot what they received on entry; 1-5 rounds '
                'reusing one caller message; payload 0-64 bytes',
        'assumptions': ['handlers respect the frame condition of Props/C20 (they write only what they were given or allocated)'],
    },
    'C01': {
        'lean_modules': ['C01', 'C01v', 'C01t'],
        'engines': [('retry', 300, 2500), ('oversized', 1, 1), ('burst', 10, 60), ('tloop', 150, 1500)],
        'rule': 'scripts of environment events (app requests before Connect / while connected / during an outage, dial results, CONNACK accepted with or without session / refused / never, peer close, inbound messages, Handle) with a per-packet fault plan (write failure, lost request, lost acknowledgement, silent) and a friendly tail; hand-written witnesses of the repaired defects first; all single- and double-fault plans over short histories in the thorough tier; non-trivial = the script reached at least one connection',
        'assumptions': ['one task of the RetryClient is one atomic model step (single task goroutine, one request outstanding at a time)',
                        'the transport either delivers a whole packet or fails the write; the broker conforms to MQTT 3.1.1 (Spec in Model/Retry: Broker)',
                        'the application does not mutate a message after Publish and leaves Message.ID zero'],
        'thorough_seeds': 2,
    },
    'C02': {
        'lean_modules': ['C02', 'C01t'],
        'engines': [('retry', 300, 2500), ('bc', 100, 1000)],
        'rule': 'scripts of environment events (app requests before Connect / while connected / during an outage, dial results, CONNACK accepted with or without session / refused / never, peer close, inbound messages, Handle) with a per-packet fault plan (write failure, lost request, lost acknowledgement, silent) and a friendly tail; hand-written witnesses of the repaired defects first; all single- and double-fault plans over short histories in the thorough tier; non-trivial = the script reached at least one connection',
        'assumptions': ['one task of the RetryClient is one atomic model step (single task goroutine, one request outstanding at a time)',
                        'the transport either delivers a whole packet or fails the write; the broker conforms to MQTT 3.1.1 (Spec in Model/Retry: Broker)',
                        'the application does not mutate a message after Publish and leaves Message.ID zero'],
        'thorough_seeds': 2,
    },
    'C03': {
        'lean_modules': ['C03', 'C03b'],
        'engines': [('retry', 300, 2500), ('burst', 10, 60), ('tloop', 60, 600)],
        'rule': 'scripts of environment events (app requests before Connect / while connected / during an outage, dial results, CONNACK accepted with or without session / refused / never, peer close, inbound messages, Handle) with a per-packet fault plan (write failure, lost request, lost acknowledgement, silent) and a friendly tail; hand-written witnesses of the repaired defects first; all single- and double-fault plans over short histories in the thorough tier; non-trivial = the script reached at least one connection',
        'assumptions': ['one task of the RetryClient is one atomic model step (single task goroutine, one request outstanding at a time)',
                        'the transport either delivers a whole packet or fails the write; the broker conforms to MQTT 3.1.1 (Spec in Model/Retry: Broker)',
                        'the application does not mutate a message after Publish and leaves Message.ID zero'],
        'thorough_seeds': 2,
    },
    'C12': {
        'lean_modules': ['C12', 'C12l'],
        'engines': [('retry', 300, 2500), ('rhandle', 1, 1)],
        'rule': 'scripts of environment events (app requests before Connect / while connected / during an outage, dial results, CONNACK accepted with or without session / refused / never, peer close, inbound messages, Handle) with a per-packet fault plan (write failure, lost request, lost acknowledgement, silent) and a friendly tail; hand-written witnesses of the repaired defects first; all single- and double-fault plans over short histories in the thorough tier; non-trivial = the script reached at least one connection',
        'assumptions': ['one task of the RetryClient is one atomic model step (single task goroutine, one request outstanding at a time)',
                        'the transport either delivers a whole packet or fails the write; the broker conforms to MQTT 3.1.1 (Spec in Model/Retry: Broker)',
                        'the application does not mutate a message after Publish and leaves Message.ID zero'],
        'thorough_seeds': 2,
    },
    'C17': {
        'lean_modules': ['C17', 'C11t'],
        'engines': [('retry', 300, 2500), ('inflow', 150, 1000), ('hcall', 1, 1)],
        'rule': 'scripts of environment events (app requests before Connect / while connected / during an outage, dial results, CONNACK accepted with or without session / refused / never, peer close, inbound messages, Handle) with a per-packet fault plan (write failure, lost request, lost acknowledgement, silent) and a friendly tail; hand-written witnesses of the repaired defects first; all single- and double-fault plans over short histories in the thorough tier; non-trivial = the script reached at least one connection',
        'assumptions': ['one task of the RetryClient is one atomic model step (single task goroutine, one request outstanding at a time)',
                        'the transport either delivers a whole packet or fails the write; the broker conforms to MQTT 3.1.1 (Spec in Model/Retry: Broker)',
                        'the application does not mutate a message after Publish and leaves Message.ID zero'],
        'thorough_seeds': 2,
    },
    'C18': {
        'lean_modules': ['C18'],
        'engines': [('retry', 300, 2500), ('ropts', 50, 500), ('hcall', 1, 1)],
        'rule': 'scripts of environment events (app requests before Connect / while connected / during an outage, dial results, CONNACK accepted with or without session / refused / never, peer close, inbound messages, Handle) with a per-packet fault plan (write failure, lost request, lost acknowledgement, silent) and a friendly tail; hand-written witnesses of the repaired defects first; all single- and double-fault plans over short histories in the thorough tier; non-trivial = the script reached at least one connection',
        'assumptions': ['one task of the RetryClient is one atomic model step (single task goroutine, one request outstanding at a time)',
                        'the transport either delivers a whole packet or fails the write; the broker conforms to MQTT 3.1.1 (Spec in Model/Retry: Broker)',
                        'the application does not mutate a message after Publish and leaves Message.ID zero'],
        'thorough_seeds': 2,
    },
    'C13': {
        'lean_modules': ['C13', 'C13o'],
        'engines': [('ka', 150, 1500), ('kareconn', 6, 60), ('ropts', 100, 2000), ('bc', 120, 1200)],
        'rule': 'the real KeepAlive loop over a real BaseClient whose broker answers, ignores (timeout), kills or refuses each PINGREQ as '
                'scripted, or whose parent context is cancelled during a ping; 0-6 answered pings before the deciding one; plus '
                'reconnecting-client scenarios (peer answers N pings, goes silent, comes back) checked by the Go oracle only',
        'assumptions': ['real time: interval 2 ms / timeout 25 ms in the loop stream; only lower bounds are asserted on elapsed time',
                        'the <-ticker.C wait is not cancel-aware: a cancelled keep-alive stops at its next tick (the statement only asks for the right error)'],
        'partial': 'promptness of detection is measured by the correspondence run, not proved (Go timers are not modelled)',
    },
    'C09': {
        'lean_modules': ['C09a', 'C09b', 'C09t'],
        'engines': [('retry', 300, 2500), ('kareconn', 4, 40)],
        'rule': 'retry-stack scripts (dial errors, refused / absent CONNACK, peer close, faults that end connections, Disconnect) '
                'checked for: every redial waits at least min(base*2^j, max) after the j-th consecutive failure (lower bound only), no dial '
                'while another transport is open, exactly one CONNECT first on every connection, no dial after Disconnect, Disconnect returns',
        'assumptions': ['elapsed time is only bounded from below (time.After never fires early); machine load cannot cause an alarm',
                        'the select between the timer and the disconnect signal may pick the timer: one Connect already in progress may finish after Disconnect is called (D20); the oracle asserts the safe reading only'],
        'partial': 'the waits are proved as exponents/arithmetic on the model; real elapsed time is validated by correspondence only',
        'thorough_seeds': 2,
    },
    'C07': {
        'engines': [('bc', 400, 4000), ('rhandle', 1, 1)],
        'rule': 'scripts over the base client LTS: API calls (Connect, Publish QoS 1/2, Subscribe, Unsubscribe, Ping, Disconnect) started at scripted points, acknowledgements in a scripted order (own, foreign, wrong-kind, unsolicited, SUBACK with right / wrong count), cancellation of any call, peer close, local Close, malformed packet, write refusal; the thorough tier enumerates every request kind x every step of its exchange x every cause, alone and with 1-4 other blocked calls; non-trivial = at least one call was made',
        'assumptions': ['registration of a waiter and the write of its request are one atomic step (no acknowledgement can precede the request)',
                        'goroutine scheduling and channel semantics of Go are not formalised: each blocking select is modelled by its three exits',
                        'promptness ("returns promptly") is measured by the correspondence run (5 s budget per predicted return), not proved'],
    },
    'C11': {
        'lean_modules': ['C11', 'C11t'],
        'engines': [('bc', 400, 4000), ('rhandle', 1, 1), ('servewf', 1, 1), ('hcall', 1, 1), ('retry', 150, 800)],
        'rule': 'scripts over the base client LTS: API calls (Connect, Publish QoS 1/2, Subscribe, Unsubscribe, Ping, Disconnect) started at scripted points, acknowledgements in a scripted order (own, foreign, wrong-kind, unsolicited, SUBACK with right / wrong count), cancellation of any call, peer close, local Close, malformed packet, write refusal; the thorough tier enumerates every request kind x every step of its exchange x every cause, alone and with 1-4 other blocked calls; non-trivial = at least one call was made',
        'assumptions': ['registration of a waiter and the write of its request are one atomic step (no acknowledgement can precede the request)',
                        'goroutine scheduling and channel semantics of Go are not formalised: each blocking select is modelled by its three exits',
                        'promptness ("returns promptly") is measured by the correspondence run (5 s budget per predicted return), not proved'],
    },
    'C16': {
        'engines': [('bc', 400, 4000), ('kareconn', 6, 60), ('servewf', 1, 1), ('ropts', 50, 500), ('ka', 60, 400)],
        'rule': 'scripts over the base client LTS: API calls (Connect, Publish QoS 1/2, Subscribe, Unsubscribe, Ping, Disconnect) started at scripted points, acknowledgements in a scripted order (own, foreign, wrong-kind, unsolicited, SUBACK with right / wrong count), cancellation of any call, peer close, local Close, malformed packet, write refusal; the thorough tier enumerates every request kind x every step of its exchange x every cause, alone and with 1-4 other blocked calls; non-trivial = at least one call was made',
        'assumptions': ['registration of a waiter and the write of its request are one atomic step (no acknowledgement can precede the request)',
                        'goroutine scheduling and channel semantics of Go are not formalised: each blocking select is modelled by its three exits',
                        'promptness ("returns promptly") is measured by the correspondence run (5 s budget per predicted return), not proved'],
    },
    'C10': {
        'lean_modules': ['C10', 'C10f'],
        'engines': [('racebase', 6, 30), ('racereconn', 6, 30), ('hcall', 1, 1)],
        'race': [('racebase', 6, 20), ('racereconn', 8, 24)],
        'race_rounds': 1, 'race_rounds_thorough': 6,
        'rule': 'concurrent compositions: 2-16 goroutines issuing Publish QoS0/1/2, Subscribe, Unsubscribe, Ping, Handle, Stats, Err, Done '
                'on a BaseClient whose broker floods inbound QoS 1/2 traffic (reader-goroutine acknowledgements); the same on a '
                'ReconnectClient with Client(), keep-alive and 2-5 connection cuts, half of the runs starting their callers while Connect '
                'is still in progress; the transport delivers every Write byte by byte with yields and an independent framer parses what '
                'the broker received; every scenario also runs in a -race build and every race report is a violation',
        'level_text': 'PARTIAL. Lean 4 theorems: (a) framing - for any number of threads and any schedule, writers that follow the '
                      'muWrite discipline produce a concatenation of whole packets; (b) lock discipline - every access in the table of '
                      'shared-field accesses regenerated from the Go sources on every run holds the guarding mutex or is a documented '
                      'ordered exception. Tied to /repo by the extractor (a changed lock discipline breaks the proof) and by race-detector '
                      'runs of concurrent scenarios (search for a concrete failing schedule).',
        'partial': 'Go\'s memory model, scheduler and race detector are not formalised; the access table is a syntactic abstraction '
                   '(straight-line lock regions, defer-unlock); absence of races is shown only for the explored schedules',
        'assumptions': ['the race detector only reports races on executed schedules', 'concurrent Ping callers share one response slot (only one goroutine pings in the base scenario)'],
        'technique': 'Lean 4 proof over an extracted lockset table + race-detector runs',
        'timeout': 1800,
    },
}
